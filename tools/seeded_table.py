#!/venv/bin/python
"""Print the markdown table of seeded changes and which checks catch them (from seeded/*/meta.json and result.json)."""
import glob, json, os
rows = []
for d in sorted(glob.glob('/verif/seeded/*/')):
    sid = os.path.basename(d.rstrip('/'))
    m = json.load(open(d + 'meta.json'))
    r = json.load(open(d + 'result.json')) if os.path.exists(d + 'result.json') else {}
    caught = sorted(p for p, v in r.items() if v.get('rc') == 1)
    missed = sorted(p for p, v in r.items() if v.get('rc') == 0)
    own = m['property_id']
    summ = ' '.join(m.get('summary', '').split())
    if len(summ) > 150:
        summ = summ[:147] + '...'
    rows.append((sid, own, ', '.join(m.get('files_touched', []))[:40], summ, ', '.join(caught) or '-', 'yes' if own in caught else 'NO'))
print('| Seeded change | For | Where | What it breaks | Caught by | By its own check |')
print('|---|---|---|---|---|---|')
for r in rows:
    print('| %s | %s | %s | %s | %s | %s |' % r)
