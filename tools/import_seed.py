#!/venv/bin/python
"""tools/import_seed.py <ID>: take a sub-agent's deliverables from /tmp/seed/out/<ID>, confirm each change in
its scratch worktree /tmp/seed/<ID> (demo passes on the clean tree, fails with the patch, pinned test suite
still passes with the patch) and store the confirmed ones as /verif/seeded/<ID>-<name>/{patch.diff,demo.py,meta.json}."""
import json, os, shutil, subprocess, sys
pid = sys.argv[1]
skip_tests = '--skip-tests' in sys.argv
base = os.environ.get('SEED_BASE', '/tmp/seed')
src = base + '/out/%s' % pid
wt = base + '/%s' % pid
meta = json.load(open(os.path.join(src, 'meta.json')))
def sh(cmd, **kw):
    return subprocess.run(cmd, capture_output=True, text=True, **kw)
assert sh(['git', '-C', wt, 'status', '--porcelain', '--untracked-files=no']).stdout.strip() == '', 'worktree not clean'
for ch in meta['changes']:
    name = ch['name']
    diff = os.path.join(src, name + '.diff')
    demo = os.path.join(src, name + '_demo.py')
    ok = {}
    r = sh(['/venv/bin/python', demo, wt], cwd='/tmp', timeout=900)
    ok['demo_clean_rc'] = r.returncode
    a = sh(['git', '-C', wt, 'apply', diff])
    if a.returncode:
        print(pid, name, 'PATCH DOES NOT APPLY', a.stderr[:300]); continue
    try:
        r = sh(['/venv/bin/python', demo, wt], cwd='/tmp', timeout=900)
        ok['demo_patched_rc'] = r.returncode
        ok['demo_patched_out'] = (r.stdout + r.stderr)[-400:]
        if not skip_tests:
            t = sh(['/tmp/seedtools/baseline_compare', '-n', '8'], env=dict(os.environ, VERIF_REPO=wt), timeout=3000)
            ok['tests'] = t.stdout.strip().splitlines()[0] if t.stdout.strip() else t.stderr[-200:]
    finally:
        sh(['git', '-C', wt, 'checkout', '--', '.'])
    good = ok['demo_clean_rc'] == 0 and ok['demo_patched_rc'] == 1 and (skip_tests or 'missing=0' in ok.get('tests', ''))
    print(pid, name, 'CONFIRMED' if good else 'REJECTED', ok.get('demo_clean_rc'), ok.get('demo_patched_rc'), ok.get('tests'))
    if not good:
        print('   ', ok)
        continue
    dst = '/verif/seeded/%s-%s' % (pid, name)
    os.makedirs(dst, exist_ok=True)
    shutil.copy(diff, os.path.join(dst, 'patch.diff'))
    shutil.copy(demo, os.path.join(dst, 'demo.py'))
    m = dict(ch)
    m['property_id'] = pid
    m['author'] = 'sub-agent given only the property text and a scratch worktree'
    m['base_commit'] = sh(['git', '-C', wt, 'rev-parse', '--short', 'HEAD']).stdout.strip()
    m['confirmed'] = ok
    json.dump(m, open(os.path.join(dst, 'meta.json'), 'w'), indent=1)
