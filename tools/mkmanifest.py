#!/venv/bin/python
"""Regenerate MANIFEST.json from the oracles that exist (keeps it valid at all times)."""
import importlib, json, os, sys
sys.path.insert(0, '/verif')
props = [json.loads(l) for l in open('/verif/properties.jsonl')]
TECH = {
 'C01': 'deterministic simulation: seeded model-directed edit histories with restart (write_fp to SimDisk, open_fp), API view vs reference model after every edit and reopen',
 'C02': 'deterministic simulation: multi-generation open-edit-write histories on simulated disks, reference-model oracle on every generation',
 'C03': 'deterministic simulation: seeded histories; every mastered image decoded by an independent ECMA-119 reader and compared with model and API',
 'C04': 'deterministic simulation with a storage monitor: allocation map from independent decoders plus the complete write log of write_fp',
 'C05': 'deterministic simulation: restart chains b1 -> b2 -> b3 under clock jumps, TZ changes, new entropy stream, other block sizes',
 'C06': 'deterministic simulation of schedules: one history on replicas differing only in when metadata is recomputed (seeded scheduler places extra calls)',
 'C07': 'deterministic simulation: link/unlink histories with restarts, conservation by stripe scan of attributable content',
 'C08': 'deterministic simulation: seeded histories on Rock Ridge images read by an independent SUSP/RRIP decoder',
 'C09': 'deterministic simulation: seeded histories on Joliet images read by an independent SVD/UCS-2 decoder, plus a doomed call',
 'C10': 'deterministic simulation: seeded histories on UDF images read by an independent ECMA-167 decoder (own CRC)',
 'C11': 'deterministic simulation: boot histories with restarts, independent El Torito decoder, stripe-checked load addresses',
 'C12': 'deterministic simulation: hybrid histories with entropy seam, independent MBR/GPT/APM decoder (own CRC32)',
 'C13': 'deterministic simulation: histories ending in doomed calls from a model-computed refusal catalogue; decoders check identifiers of every image',
 'C14': 'fault injection: refused calls and I/O faults injected at seeded points of a history; twin replays compare mastered bytes',
 'C15': 'fault injection on stored bytes: truncation, torn mastering (write-log prefixes), sector and field corruption via decoder field maps; deterministic step/byte/memory budgets',
 'C16': 'deterministic simulation of interleavings: seeded scheduler interleaves stream clients and noise clients sharing one file position; sequential BytesIO model',
 'C17': 'deterministic simulation with a storage monitor: in-place modification on a SimDisk, byte diff and write log vs allowed set',
 'C19': 'deterministic simulation of clock and time zone: seeded instants/TZ rules with clock jumps and jitter; independent decoders read every timestamp',
 'C20': 'deterministic simulation with a filesystem seam: tools run in-process with seeded os.listdir order, real temp tree, decoders as oracle',
}
LEVEL = {'C14': 'fault_enumeration'}
checks = []
built = []
for p in props:
    pid = p['id']
    try:
        mod = importlib.import_module('isosim.oracles.' + pid.lower())
    except ImportError:
        continue
    built.append(pid)
    checks.append({
        'property_id': pid,
        'quick_cmd': 'bin/check %s --tier quick' % pid,
        'thorough_cmd': 'bin/check %s --tier thorough' % pid,
        'evidence_file': 'evidence/%s.json' % pid,
        'replay_cmd_template': 'bin/replay {path}',
        'engine': 'isosim',
        'level_claimed': {'category': getattr(mod, 'LEVEL', 'exploration'),
                          'text': ('Seeded search over simulated runs (one integer decides everything; violations are minimised and replay exactly). ' + getattr(mod, 'RULE', ''))[:1800],
                          'design_ref': 'DESIGN.md section 4, ' + pid},
        'level_note': 'Sampling, not proof. Trusted base: isosim reference model and independent decoders (written from the standards, share no code with pycdlib), '
                      'SimDisk/SimFile, seeded clock/TZ/entropy shims. ' + ' '.join(getattr(mod, 'ASSUMPTIONS', []))[:900],
        'technique': TECH.get(pid, 'deterministic simulation with fault injection'),
    })
na = [{'property_id': 'C18', 'reason': 'pure functions of a string and an interchange level: no schedule, clock, fault, I/O or history for a simulator to control; driving them from a PRNG would be input generation in simulator vocabulary (DESIGN.md section 4, C18)'}]
for p in props:
    if p['id'] not in built and p['id'] != 'C18':
        na.append({'property_id': p['id'], 'reason': 'check not built yet (work in progress); the design for it is in DESIGN.md section 4'})
m = {
 'version': 1,
 'setup_cmd': "/venv/bin/python -m compileall -q isosim && /venv/bin/python -c \"import sys; sys.path.insert(0,'.'); from isosim import world; world.ensure_repo_on_path(); print('isosim ok')\" && bin/selftest -q",
 'hooks': {'guard': 'PYCDLIB_VERIF', 'enable': 'PYCDLIB_VERIF=1 in the environment before pycdlib is imported (isosim/world.py sets it): makes pycdlib.pycdlib._MAX_EXTENT_LENGTH (the length at which a file is split into several extents, 0xfffff800 as shipped) overridable, through PYCDLIB_VERIF_MAX_EXTENT or by the simulator assigning the module attribute per run; every other seam (time, random, uuid, open, os, file objects, tool module globals) is reached from outside without any change to /repo',
           'baseline_off_cmd': 'cd /repo && /venv/bin/python -m pytest -ra -q -p no:cacheprovider --timeout=900 --continue-on-collection-errors',
           'source_commits': ['1311f1a8840973689b25d67fa52d5ff0d20fe56f'], 'add_only': False},
 'engines': [{'name': 'isosim', 'path': 'isosim/', 'serves_properties': built,
              'kind_free_text': 'own deterministic simulator: seeded world (clock, TZ, entropy, cache sizes), simulated disks/files with fault plans and complete op logs, reference model, independent decoders (ECMA-119, SUSP/RRIP, ECMA-167/UDF, El Torito, MBR/GPT/APM), minimiser, replay files, known-findings matching'}],
 'checks': checks,
 'not_applicable': na,
 'notes': 'bin/check <ID> --tier quick|thorough; exit 0 held / 1 VIOLATION (minimised replay verified in a fresh interpreter) / 2 harness failure. known_findings.jsonl lists recorded defects (KNOWN-FINDING lines) and repaired ones (fixed: lines). See DESIGN.md.',
}
json.dump(m, open('/verif/MANIFEST.json', 'w'), indent=1)
print('built', built)
