"""Independent ECMA-167 / UDF reader (subset: VRS, AVDP, VDS, LVID, FSD, FE/EFE,
FID, short/long ADs, CS0 names, path components).  Written from the standards
(DESIGN.md Appendix A); shares no code with pycdlib (own CRC, own layouts).
Starts only from sector 16 (recognition sequence) and the anchors."""
import struct

SECTOR = 2048


def crc_ccitt(data):
    crc = 0
    for b in data:
        crc ^= b << 8
        for _ in range(8):
            if crc & 0x8000:
                crc = ((crc << 1) ^ 0x1021) & 0xffff
            else:
                crc = (crc << 1) & 0xffff
    return crc


_CRC_TABLE = []
for _i in range(256):
    _c = _i << 8
    for _ in range(8):
        _c = ((_c << 1) ^ 0x1021) & 0xffff if _c & 0x8000 else (_c << 1) & 0xffff
    _CRC_TABLE.append(_c)


def crc_fast(data):
    crc = 0
    t = _CRC_TABLE
    for b in data:
        crc = ((crc << 8) & 0xffff) ^ t[((crc >> 8) ^ b) & 0xff]
    return crc


class UAnom:
    __slots__ = ('rule', 'offset', 'detail')

    def __init__(self, rule, offset, detail=''):
        self.rule = rule
        self.offset = offset
        self.detail = detail

    def __repr__(self):
        return 'Anomaly(%s @%d %s)' % (self.rule, self.offset, self.detail)


class UEntry:
    __slots__ = ('kind', 'fe_block', 'fe_abs', 'info_len', 'extents', 'link_count', 'fid_count', 'children', 'target',
                 'name', 'path', 'times', 'embedded', 'blocks_recorded', 'unique_id', 'hidden', 'fid_off', 'parent_block')

    def __init__(self):
        self.children = None
        self.parent_block = None
        self.target = None
        self.extents = []
        self.fid_count = 0
        self.embedded = None
        self.times = {}
        self.hidden = False
        self.path = None
        self.name = None


class UdfImage:
    def __init__(self, data, vol_sectors=None):
        self.vol_sectors = vol_sectors    # size the ISO9660 PVD declares (a hybrid image is padded beyond it)
        self.data = data
        self.n = len(data)
        self.anoms = []
        self.fields = []
        self.objects = []         # (kind, start byte, length, owner)
        self.present = False
        self.nsr = None
        self.anchors = {}
        self.part_start = None
        self.part_len = None
        self.part_num = None
        self.entries = {}         # path -> UEntry
        self.root = None
        self.timestamps = []      # (abs offset, 12 bytes, meaning)
        self.lvid = None
        self.fe_by_block = {}
        self.vrs_sectors = []
        self.fe_failures = 0

    def anom(self, rule, off, detail=''):
        self.anoms.append(UAnom(rule, off, detail))

    def field(self, off, ln, meaning):
        self.fields.append((off, ln, meaning))

    def get(self, off, ln):
        if off < 0 or ln < 0 or off + ln > self.n:
            return None
        return self.data[off:off + ln]

    # -- tag ------------------------------------------------------------------
    def tag(self, abs_off, expect_id, expect_loc, what):
        """Validate the 16-byte descriptor tag at abs_off.  Returns (ok, crc_len)."""
        t = self.get(abs_off, 16)
        if t is None:
            self.anom('ecma167.3/7.2/tag-out-of-image.' + what, abs_off)
            return False
        tid, ver, csum, res, serial, crc, crc_len, loc = struct.unpack('<HHBBHHHI', t)
        self.field(abs_off, 2, 'tag.id.' + what)
        self.field(abs_off + 4, 1, 'tag.checksum.' + what)
        self.field(abs_off + 8, 2, 'tag.crc.' + what)
        self.field(abs_off + 10, 2, 'tag.crc_len.' + what)
        self.field(abs_off + 12, 4, 'tag.location.' + what)
        ok = True
        if expect_id is not None and tid not in (expect_id if isinstance(expect_id, tuple) else (expect_id,)):
            self.anom('ecma167.3/7.2.1/tag-identifier.' + what, abs_off, 'got %d want %r' % (tid, expect_id))
            return False
        if ver not in (2, 3):
            self.anom('ecma167.3/7.2.2/tag-version.' + what, abs_off + 2, str(ver))
            ok = False
        s = (sum(t) - t[4]) & 0xff
        if s != csum:
            self.anom('ecma167.3/7.2.3/tag-checksum.' + what, abs_off + 4, 'got %d want %d' % (csum, s))
            ok = False
        body = self.get(abs_off + 16, crc_len)
        if body is None:
            self.anom('ecma167.3/7.2.7/tag-crc-length-beyond-image.' + what, abs_off + 10, str(crc_len))
            ok = False
        elif crc_fast(body) != crc:
            self.anom('ecma167.3/7.2.6/tag-crc.' + what, abs_off + 8, 'got %#x want %#x over %d bytes' % (crc, crc_fast(body), crc_len))
            ok = False
        if expect_loc is not None and loc != expect_loc:
            self.anom('ecma167.3/7.2.8/tag-location.' + what, abs_off + 12, 'got %d want %d' % (loc, expect_loc))
            ok = False
        return ok and (tid, crc_len)

    # -- decode ---------------------------------------------------------------
    def decode(self):
        self._vrs()
        if not self.present:
            return self
        self._anchors()
        return self

    def _vrs(self):
        sec = 16
        ids = []
        while sec < 16 + 64:
            b = self.get(sec * SECTOR, 7)
            if b is None:
                break
            ident = b[1:6]
            if ident == b'CD001':
                ids.append(('CD001', sec))
            elif ident in (b'BEA01', b'NSR02', b'NSR03', b'TEA01', b'BOOT2'):
                ids.append((ident.decode(), sec))
                self.vrs_sectors.append(sec)
                if b[0] != 0 or b[6] != 1:
                    self.anom('ecma167.2/9/vrs-structure-type-version', sec * SECTOR, '%r type=%d ver=%d' % (ident, b[0], b[6]))
                self.objects.append(('udf.vrs', sec * SECTOR, SECTOR, ident.decode()))
            else:
                break
            sec += 1
        names = [i for i, _ in ids]
        if not any(n.startswith('NSR') for n in names) and 'BEA01' not in names:
            return
        self.present = True
        seq = [n for n in names if n != 'CD001']
        if seq[:1] != ['BEA01'] or seq[-1:] != ['TEA01'] or not any(n.startswith('NSR') for n in seq):
            self.anom('ecma167.2/8.3.1/vrs-sequence', 16 * SECTOR, repr(seq))
        # extended area must follow the CD001 descriptors
        last_cd = max([s for n, s in ids if n == 'CD001'] or [15])
        first_udf = min([s for n, s in ids if n != 'CD001'] or [0])
        if first_udf < last_cd:
            self.anom('ecma167.2/8.3.1/vrs-before-cd001-end', first_udf * SECTOR)
        self.nsr = next(n for n in seq if n.startswith('NSR')) if any(n.startswith('NSR') for n in seq) else None

    def _anchors(self):
        nsec = self.n // SECTOR
        found = []
        ends = [nsec - 1, nsec - 257]
        if self.vol_sectors and self.vol_sectors < nsec:
            nsec_v = self.vol_sectors
            ends += [nsec_v - 1, nsec_v - 257]
        for loc in [256] + ends:
            if loc <= 0 or loc >= nsec or loc in [l for l, _ in found]:
                continue
            b = self.get(loc * SECTOR, 2)
            if b is not None and struct.unpack('<H', b)[0] == 2:
                r = self.tag(loc * SECTOR, 2, loc, 'avdp')
                if r:
                    body = self.get(loc * SECTOR, 32)
                    mlen, mloc, rlen, rloc = struct.unpack_from('<IIII', body, 16)
                    self.field(loc * SECTOR + 16, 8, 'avdp.main_vds')
                    self.field(loc * SECTOR + 24, 8, 'avdp.reserve_vds')
                    found.append((loc, (mlen, mloc, rlen, rloc)))
                    self.objects.append(('udf.avdp', loc * SECTOR, SECTOR, 'anchor@%d' % loc))
        self.anchors = dict(found)
        if 256 not in self.anchors:
            self.anom('udf2.60/2.2.3/no-anchor-at-256', 256 * SECTOR)
        if not any(e in self.anchors for e in ends):
            self.anom('udf2.60/2.2.3/no-anchor-at-end', (nsec - 1) * SECTOR, 'image has %d sectors' % nsec)
        if len(found) < 2:
            self.anom('udf2.60/2.2.3/fewer-than-two-anchors', 256 * SECTOR, 'found at %r' % [l for l, _ in found])
        vals = set(v for _, v in found)
        if len(vals) > 1:
            self.anom('ecma167.3/10.2/anchors-disagree', 256 * SECTOR, repr(sorted(vals)))
        if not found:
            return
        mlen, mloc, rlen, rloc = found[0][1]
        main = self._vds(mloc, mlen, 'main')
        reserve = self._vds(rloc, rlen, 'reserve')
        if main is None:
            return
        if reserve is not None:
            for k in ('pd', 'lvd'):
                if main.get(k) and reserve.get(k) and main[k][1] != reserve[k][1]:
                    self.anom('ecma167.3/8.4.2/reserve-vds-differs.' + k, rloc * SECTOR)
        for need in ('pvd', 'iuvd', 'pd', 'lvd', 'usd', 'td'):
            if need not in main:
                self.anom('ecma167.3/8.4.2/vds-missing-' + need, mloc * SECTOR)
        if 'pd' not in main or 'lvd' not in main:
            return
        self._partition(main['pd'][0])
        self._lvd(main['lvd'][0])

    def _vds(self, loc, ln, which):
        out = {}
        if ln % SECTOR or ln < 16 * SECTOR:
            self.anom('ecma167.3/8.4.2/vds-extent-length.' + which, 0, str(ln))
        nsec = ln // SECTOR
        names = {1: 'pvd', 4: 'iuvd', 5: 'pd', 6: 'lvd', 7: 'usd', 8: 'td'}
        self.objects.append(('udf.vds.' + which, loc * SECTOR, ln, which))
        for i in range(nsec):
            off = (loc + i) * SECTOR
            b = self.get(off, 16)
            if b is None:
                self.anom('ecma167.3/8.4.2/vds-out-of-image.' + which, off)
                return None
            tid = struct.unpack_from('<H', b)[0]
            if tid == 0:
                if any(self.get(off, SECTOR)):
                    pass
                continue
            if tid not in names:
                self.anom('ecma167.3/8.4.2/vds-unknown-descriptor.' + which, off, str(tid))
                continue
            if not self.tag(off, tid, loc + i, names[tid] + '.' + which):
                continue
            out[names[tid]] = (off, self.get(off + 16, 496))
            if tid == 8:
                break
        return out

    def _partition(self, off):
        b = self.get(off, 512)
        self.part_num = struct.unpack_from('<H', b, 22)[0]
        contents = b[24 + 1:24 + 1 + 23].rstrip(b'\x00')
        if contents not in (b'+NSR02', b'+NSR03'):
            self.anom('ecma167.3/10.5.5/partition-contents', off + 24, repr(contents))
        self.part_start, self.part_len = struct.unpack_from('<II', b, 188)
        self.field(off + 188, 4, 'pd.start')
        self.field(off + 192, 4, 'pd.length')
        if (self.part_start + self.part_len) * SECTOR > self.n:
            self.anom('ecma167.3/10.5.9/partition-beyond-image', off + 192, 'start=%d len=%d image=%d sectors' % (self.part_start, self.part_len, self.n // SECTOR))

    def pblock(self, block):
        return (self.part_start + block) * SECTOR

    def _lvd(self, off):
        b = self.get(off, 512)
        bs = struct.unpack_from('<I', b, 212)[0]
        if bs != SECTOR:
            self.anom('ecma167.3/10.6.7/logical-block-size', off + 212, str(bs))
        dom = b[216 + 1:216 + 24].rstrip(b'\x00')
        if dom != b'*OSTA UDF Compliant':
            self.anom('udf2.60/2.2.4.3/domain-identifier', off + 216, repr(dom))
        fsd_len, fsd_block, fsd_part = struct.unpack_from('<IIH', b, 248)
        mt_len, n_maps = struct.unpack_from('<II', b, 264)
        int_len, int_loc = struct.unpack_from('<II', b, 432)
        self.field(off + 248, 16, 'lvd.fsd_long_ad')
        self.field(off + 432, 8, 'lvd.integrity_extent')
        if n_maps < 1:
            self.anom('ecma167.3/10.6.13/no-partition-map', off + 268)
        else:
            pm = b[440:440 + mt_len]
            if len(pm) >= 6:
                if pm[0] != 1 or pm[1] != 6:
                    self.anom('ecma167.3/10.7.2/partition-map-type1', off + 440, pm[:6].hex())
                elif struct.unpack_from('<H', pm, 4)[0] != self.part_num:
                    self.anom('ecma167.3/10.7.2/partition-map-number', off + 444)
        self._lvid(int_loc, int_len)
        self._fsd(fsd_block, fsd_len)

    def _lvid(self, loc, ln):
        off = loc * SECTOR
        r = self.tag(off, 9, loc, 'lvid')
        self.objects.append(('udf.lvid', off, max(ln, SECTOR), 'lvid'))
        if not r:
            return
        b = self.get(off, SECTOR)
        self.timestamps.append((off + 16, b[16:28], 'lvid.recording'))
        itype = struct.unpack_from('<I', b, 28)[0]
        nparts, l_iu = struct.unpack_from('<II', b, 72)
        if nparts < 1:
            self.anom('ecma167.3/10.10/lvid-no-partitions', off + 72)
            return
        free = struct.unpack_from('<%dI' % nparts, b, 80)
        sizes = struct.unpack_from('<%dI' % nparts, b, 80 + 4 * nparts)
        iu = 80 + 8 * nparts
        nfiles, ndirs = struct.unpack_from('<II', b, iu + 32)
        self.field(off + 80 + 4 * nparts, 4, 'lvid.size_table')
        self.field(off + iu + 32, 4, 'lvid.num_files')
        self.field(off + iu + 36, 4, 'lvid.num_dirs')
        self.lvid = {'type': itype, 'sizes': sizes, 'free': free, 'files': nfiles, 'dirs': ndirs, 'off': off,
                     'unique_id': struct.unpack_from('<Q', b, 40)[0]}
        if self.part_len is not None and sizes[0] != self.part_len:
            self.anom('udf2.60/2.2.6.2/lvid-size-table-vs-partition-length', off + 80 + 4 * nparts,
                      'size table %d, partition length %d' % (sizes[0], self.part_len))

    def _fsd(self, block, ln):
        off = self.pblock(block)
        if not self.tag(off, 256, block, 'fsd'):
            return
        self.objects.append(('udf.fsd', off, SECTOR, 'fsd'))
        b = self.get(off, 512)
        self.timestamps.append((off + 16, b[16:28], 'fsd.recording'))
        r_len, r_block, r_part = struct.unpack_from('<IIH', b, 400)
        self.field(off + 400, 16, 'fsd.root_icb')
        # a terminating descriptor usually follows the FSD
        nb = self.get(off + SECTOR, 2)
        if nb is not None and struct.unpack('<H', nb)[0] == 8:
            if self.tag(off + SECTOR, 8, block + 1, 'fsd-td'):
                self.objects.append(('udf.fsd-td', off + SECTOR, SECTOR, 'fsd-td'))
        root = self._file_entry(r_block, '/', None)
        if root is None:
            return
        if root.kind != 'dir':
            self.anom('ecma167.4/14.1.15/root-icb-not-directory', off + 400)
            return
        self.root = root
        root.name = ''
        root.path = '/'
        self.entries['/'] = root
        self._walk()

    # -- file entries -------------------------------------------------------------
    def _file_entry(self, block, path, parent):
        off = self.pblock(block)
        if block in self.fe_by_block:
            return self.fe_by_block[block]
        r = self.tag(off, (261, 266), block, 'fe')
        if not r:
            return None
        tid, crc_len = r
        b = self.get(off, SECTOR)
        if b is None:
            self.anom('ecma167.4/14.9/fe-out-of-image', off)
            return None
        e = UEntry()
        e.fe_block = block
        e.fe_abs = off
        icb = b[16:36]
        strategy = struct.unpack_from('<H', icb, 4)[0]
        ftype = icb[11]
        flags = struct.unpack_from('<H', icb, 18)[0]
        if strategy != 4:
            self.anom('udf2.60/2.3.5.1/icb-strategy', off + 20, str(strategy))
        e.kind = {4: 'dir', 5: 'file', 12: 'symlink'}.get(ftype, 'other%d' % ftype)
        e.link_count = struct.unpack_from('<H', b, 48)[0]
        e.info_len = struct.unpack_from('<Q', b, 56)[0]
        self.field(off + 48, 2, 'fe.link_count')
        self.field(off + 56, 8, 'fe.info_length')
        if tid == 261:
            e.blocks_recorded = struct.unpack_from('<Q', b, 64)[0]
            tso = (('access', 72), ('modification', 84), ('attribute', 96))
            e.unique_id = struct.unpack_from('<Q', b, 160)[0]
            l_ea, l_ad = struct.unpack_from('<II', b, 168)
            ad_off = 176 + l_ea
            self.field(off + 172, 4, 'fe.l_ad')
        else:
            e.blocks_recorded = struct.unpack_from('<Q', b, 72)[0]
            tso = (('access', 80), ('modification', 92), ('creation', 104), ('attribute', 116))
            e.unique_id = struct.unpack_from('<Q', b, 200)[0]
            l_ea, l_ad = struct.unpack_from('<II', b, 208)
            ad_off = 216 + l_ea
            self.field(off + 212, 4, 'fe.l_ad')
        for nm, o in tso:
            e.times[nm] = (off + o, b[o:o + 12])
            self.timestamps.append((off + o, b[o:o + 12], 'fe.' + nm))
        if ad_off + l_ad > SECTOR:
            self.anom('ecma167.4/14.9.22/allocation-descriptors-beyond-block', off + 172, 'l_ea=%d l_ad=%d' % (l_ea, l_ad))
            return None
        if 16 + crc_len != ad_off + l_ad and crc_len != SECTOR - 16:
            self.anom('ecma167.3/7.2.7/fe-crc-length-vs-descriptor-length', off + 10, 'crc_len=%d descriptor=%d' % (crc_len, ad_off + l_ad - 16))
        self.objects.append(('udf.fe', off, SECTOR, path))
        adtype = flags & 7
        total = 0
        if adtype == 3:
            e.embedded = b[ad_off:ad_off + l_ad]
            total = l_ad
        else:
            size = 8 if adtype == 0 else 16 if adtype == 1 else None
            if size is None:
                self.anom('ecma167.4/14.6.8/unsupported-ad-type', off + 34, str(adtype))
                return None
            if l_ad % size:
                self.anom('ecma167.4/14.9.22/l_ad-not-multiple-of-ad-size', off + 172, str(l_ad))
            for i in range(l_ad // size):
                o = ad_off + i * size
                raw_len, pos = struct.unpack_from('<II', b, o)
                elen = raw_len & 0x3fffffff
                etype = raw_len >> 30
                self.field(off + o, 4, 'ad.length')
                self.field(off + o + 4, 4, 'ad.position')
                if elen == 0:
                    continue
                if etype == 3:
                    self.anom('ecma167.4/14.14.1.1/ad-continuation-unsupported', off + o)
                    continue
                e.extents.append((pos, elen, etype))
                total += elen
                if self.part_len is not None and pos + (elen + SECTOR - 1) // SECTOR > self.part_len:
                    self.anom('ecma167.4/14.14/extent-beyond-partition', off + o, 'pos=%d len=%d part_len=%d' % (pos, elen, self.part_len))
                if i < l_ad // size - 1 and elen % SECTOR:
                    self.anom('ecma167.4/12.1/non-final-extent-not-block-multiple', off + o, str(elen))
        if total != e.info_len:
            self.anom('ecma167.4/14.9.10/information-length-vs-extents', off + 56, 'info_len=%d sum(ad)=%d' % (e.info_len, total))
        want_blocks = sum((ln + SECTOR - 1) // SECTOR for _, ln, t in e.extents if t == 0)
        if e.blocks_recorded != want_blocks:
            self.anom('ecma167.4/14.9.11/logical-blocks-recorded', off + 64, 'recorded=%d extents cover=%d' % (e.blocks_recorded, want_blocks))
        self.fe_by_block[block] = e
        return e

    def entry_bytes(self, e):
        if e.embedded is not None:
            return bytes(e.embedded)
        out = []
        for pos, ln, t in e.extents:
            if t != 0:
                out.append(b'\x00' * ln)
                continue
            d = self.get(self.pblock(pos), ln)
            if d is None:
                return None
            out.append(d)
        return b''.join(out)

    def _walk(self):
        queue = [self.root]
        self.root.parent_block = self.root.fe_block
        seen = set()
        ndirs = nfiles = 0
        while queue:
            d = queue.pop(0)
            if d.fe_block in seen:
                self.anom('ecma167.4/8.6/directory-cycle', d.fe_abs)
                continue
            seen.add(d.fe_block)
            ndirs += 1
            d.children = {}
            data = self.entry_bytes(d)
            if data is None:
                self.anom('ecma167.4/14.4/directory-data-out-of-image', d.fe_abs, d.path)
                continue
            for pos, ln, t in d.extents:
                self.objects.append(('udf.fids', self.pblock(pos), ((ln + SECTOR - 1) // SECTOR) * SECTOR, d.path))
            base = self.pblock(d.extents[0][0]) if d.extents else d.fe_abs
            off = 0
            first = True
            while off < len(data):
                if off + 38 > len(data):
                    self.anom('ecma167.4/14.4/fid-truncated', base + off, d.path)
                    break
                tid = struct.unpack_from('<H', data, off)[0]
                if tid != 257:
                    self.anom('ecma167.4/14.4.1/fid-tag-identifier', base + off, 'dir %r got %d' % (d.path, tid))
                    break
                chars = data[off + 18]
                l_fi = data[off + 19]
                icb_len, icb_block, icb_part = struct.unpack_from('<IIH', data, off + 20)
                l_iu = struct.unpack_from('<H', data, off + 36)[0]
                total = 38 + l_iu + l_fi
                total += (4 - total % 4) % 4
                if off + total > len(data):
                    self.anom('ecma167.4/14.4/fid-beyond-directory', base + off, d.path)
                    break
                # tag of a FID: location = block (within partition) where the FID starts
                fid_block = d.extents[0][0] + (off // SECTOR) if d.extents else d.fe_block
                self._fid_tag(data, off, total, fid_block, base + off)
                ident = data[off + 38 + l_iu:off + 38 + l_iu + l_fi]
                self.field(base + off + 19, 1, 'fid.l_fi')
                self.field(base + off + 20, 16, 'fid.icb')
                if chars & 0x08:       # parent
                    if not first:
                        self.anom('udf2.60/2.3.4/parent-fid-not-first', base + off, d.path)
                    if l_fi != 0:
                        self.anom('ecma167.4/14.4.4/parent-fid-with-identifier', base + off)
                    # ECMA-167 4/8.6 and 4/14.4.5: the parent entry identifies the ICB of the parent directory
                    # (the root directory is its own parent)
                    want = getattr(d, 'parent_block', None)
                    if want is not None and icb_block != want:
                        self.anom('ecma167.4/8.6/parent-fid-icb', base + off + 20, 'dir %r: parent entry points at block %d, the parent directory is at %d' % (d.path, icb_block, want))
                    off += total
                    first = False
                    continue
                if first:
                    self.anom('udf2.60/2.3.4/first-fid-not-parent', base + off, d.path)
                first = False
                if chars & 0x04:       # deleted
                    off += total
                    continue
                name = decode_cs0(ident)
                if name is None:
                    self.anom('udf2.60/2.1.1/fid-name-compression-id', base + off + 38 + l_iu, ident[:1].hex())
                    name = ident.decode('latin-1')
                path = (d.path if d.path != '/' else '') + '/' + name
                if name in d.children:
                    self.anom('ecma167.4/8.6/duplicate-file-identifier', base + off, path)
                child = self._file_entry(icb_block, path, d)
                off += total
                if child is None:
                    self.fe_failures += 1
                    continue
                if child.kind == 'dir' and getattr(child, 'parent_block', None) is None:
                    child.parent_block = d.fe_block
                child.fid_count += 1
                if bool(chars & 0x02) != (child.kind == 'dir'):
                    self.anom('ecma167.4/14.4.3/fid-directory-bit-vs-icb-type', base + off - total, path)
                d.children[name] = child
                if path not in self.entries:
                    self.entries[path] = child
                if child.path is None:
                    child.path = path
                    child.name = name
                if child.kind == 'dir':
                    queue.append(child)
                else:
                    pass
        # link counts and totals
        counted = set()
        for path, e in self.entries.items():
            if id(e) in counted:
                continue
            counted.add(id(e))
            if e.kind != 'dir':
                nfiles += 1
                if e.link_count != e.fid_count:
                    self.anom('ecma167.4/14.9.6/file-link-count', e.fe_abs + 48, '%r: link count %d, %d FIDs name it' % (path, e.link_count, e.fid_count))
                for pos, ln, t in e.extents:
                    self.objects.append(('udf.data', self.pblock(pos), ((ln + SECTOR - 1) // SECTOR) * SECTOR, path))
            else:
                nsub = sum(1 for c in (e.children or {}).values() if c.kind == 'dir')
                if e.link_count != 1 + nsub:
                    self.anom('ecma167.4/14.9.6/directory-link-count', e.fe_abs + 48, '%r: link count %d, %d sub-directories' % (path, e.link_count, nsub))
            if e.kind == 'symlink':
                raw = self.entry_bytes(e)
                e.target = decode_path_components(raw, self, e.fe_abs) if raw is not None else None
        nfids = sum(e.fid_count for p, e in self.entries.items() if e.kind != 'dir' and self.entries[e.path] is e and p == e.path)
        if self.lvid is not None:
            # UDF 2.60 2.2.6.4 does not say whether a file with two names counts once or twice
            if self.lvid['files'] not in (nfiles, nfids) and not self.fe_failures:
                self.anom('udf2.60/2.2.6.4/lvid-number-of-files', self.lvid['off'], 'recorded %d, actual %d' % (self.lvid['files'], nfiles))
            if self.lvid['dirs'] != ndirs and not self.fe_failures:
                self.anom('udf2.60/2.2.6.4/lvid-number-of-directories', self.lvid['off'], 'recorded %d, actual %d' % (self.lvid['dirs'], ndirs))

    def _fid_tag(self, data, off, total, block, abs_off):
        t = data[off:off + 16]
        tid, ver, csum, res, serial, crc, crc_len, loc = struct.unpack('<HHBBHHHI', t)
        s = (sum(t) - t[4]) & 0xff
        if s != csum:
            self.anom('ecma167.3/7.2.3/tag-checksum.fid', abs_off + 4)
        if crc_len != total - 16:
            self.anom('ecma167.3/7.2.7/fid-crc-length', abs_off + 10, 'crc_len=%d fid=%d' % (crc_len, total - 16))
        if off + 16 + crc_len <= len(data) and crc_fast(data[off + 16:off + 16 + crc_len]) != crc:
            self.anom('ecma167.3/7.2.6/tag-crc.fid', abs_off + 8)
        if loc != block:
            self.anom('ecma167.3/7.2.8/tag-location.fid', abs_off + 12, 'got %d want %d' % (loc, block))


def decode_cs0(ident):
    if not ident:
        return ''
    if ident[0] == 8:
        return ident[1:].decode('latin-1')
    if ident[0] == 16:
        try:
            return ident[1:].decode('utf-16_be')
        except UnicodeDecodeError:
            return None
    return None


def decode_path_components(data, img, off):
    comps = []
    p = 0
    absolute = False
    while p < len(data):
        if p + 4 > len(data):
            img.anom('ecma167.4/14.16/path-component-truncated', off)
            break
        ctype, l_ci = data[p], data[p + 1]
        ident = data[p + 4:p + 4 + l_ci]
        if p + 4 + l_ci > len(data):
            img.anom('ecma167.4/14.16/path-component-beyond-data', off)
            break
        p += 4 + l_ci
        if ctype in (1, 2):
            absolute = True
            if l_ci and ctype == 2:
                img.anom('ecma167.4/14.16.1.1/root-component-with-identifier', off)
        elif ctype == 3:
            comps.append('..')
        elif ctype == 4:
            comps.append('.')
        elif ctype == 5:
            nm = decode_cs0(ident)
            if nm is None:
                img.anom('udf2.60/2.1.1/path-component-compression-id', off)
                nm = ident.decode('latin-1')
            comps.append(nm)
        else:
            img.anom('ecma167.4/14.16.1.1/path-component-type', off, str(ctype))
    return ('/' if absolute else '') + '/'.join(comps)


def decode(data, vol_sectors=None):
    if vol_sectors is None and len(data) >= 17 * SECTOR and data[16 * SECTOR + 1:16 * SECTOR + 6] == b'CD001':
        vol_sectors = struct.unpack_from('<I', data, 16 * SECTOR + 80)[0]
    return UdfImage(data, vol_sectors).decode()
