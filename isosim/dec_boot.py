"""Independent readers for El Torito 1.0 (boot record, catalog, boot info table)
and for the isohybrid system area (MBR, GPT primary+backup, APM).  Written from
the specifications (DESIGN.md Appendix A); own CRC32 (zlib polynomial)."""
import struct

SECTOR = 2048


class BAnom:
    __slots__ = ('rule', 'offset', 'detail')

    def __init__(self, rule, offset, detail=''):
        self.rule, self.offset, self.detail = rule, offset, detail

    def __repr__(self):
        return 'Anomaly(%s @%d %s)' % (self.rule, self.offset, self.detail)


_CRC32 = []
for _i in range(256):
    _c = _i
    for _ in range(8):
        _c = (_c >> 1) ^ 0xEDB88320 if _c & 1 else _c >> 1
    _CRC32.append(_c)


def crc32(data):
    c = 0xffffffff
    t = _CRC32
    for b in data:
        c = t[(c ^ b) & 0xff] ^ (c >> 8)
    return c ^ 0xffffffff


class ElTorito:
    def __init__(self, data):
        self.data = data
        self.anoms = []
        self.fields = []
        self.present = False
        self.br_sector = None
        self.catalog_lba = None
        self.platform = None
        self.initial = None
        self.sections = []        # (header dict, [entries])
        self.entries = []         # flat: initial + section entries (dicts)
        self.objects = []

    def anom(self, rule, off, detail=''):
        self.anoms.append(BAnom(rule, off, detail))

    def decode(self, boot_vds):
        """boot_vds: list of (sector, raw) of type-0 descriptors found by dec_iso."""
        et = [(s, raw) for s, raw in boot_vds if raw[7:39].rstrip(b'\x00') == b'EL TORITO SPECIFICATION']
        if not et:
            return self
        self.present = True
        if len(et) > 1:
            self.anom('eltorito.2.0/multiple-boot-records', et[1][0] * SECTOR)
        sec, raw = et[0]
        self.br_sector = sec
        if sec != 17:
            self.anom('eltorito.2.0/boot-record-not-at-17', sec * SECTOR, 'at %d' % sec)
        if raw[7:39] != b'EL TORITO SPECIFICATION'.ljust(32, b'\x00'):
            self.anom('eltorito.2.0/boot-system-id-padding', sec * SECTOR + 7)
        if any(raw[39:71]):
            self.anom('eltorito.2.0/boot-id-nonzero', sec * SECTOR + 39)
        self.catalog_lba = struct.unpack_from('<I', raw, 71)[0]
        self.fields.append((sec * SECTOR + 71, 4, 'eltorito.catalog_lba'))
        if any(raw[75:]):
            self.anom('eltorito.2.0/boot-record-tail-nonzero', sec * SECTOR + 75)
        base = self.catalog_lba * SECTOR
        cat = self.data[base:base + SECTOR]
        if len(cat) < SECTOR:
            self.anom('eltorito.2.0/catalog-out-of-image', sec * SECTOR + 71, str(self.catalog_lba))
            return self
        self.objects.append(('eltorito.catalog', base, SECTOR, 'catalog'))
        v = cat[0:32]
        if v[0] != 1:
            self.anom('eltorito.2.1/validation-header-id', base, str(v[0]))
        self.platform = v[1]
        if v[2:4] != b'\x00\x00':
            self.anom('eltorito.2.1/validation-reserved', base + 2)
        words = struct.unpack('<16H', v)
        if sum(words) & 0xffff:
            self.anom('eltorito.2.1/validation-checksum', base + 28, 'sum=%#x' % (sum(words) & 0xffff))
        if v[30:32] != b'\x55\xaa':
            self.anom('eltorito.2.1/validation-key-bytes', base + 30, v[30:32].hex())
        self.fields.append((base + 28, 2, 'eltorito.validation_checksum'))
        self.initial = self._entry(cat, 32, base)
        self.entries.append(self.initial)
        off = 64
        last_seen = False
        while off + 32 <= SECTOR:
            b0 = cat[off]
            if b0 in (0x90, 0x91):
                if last_seen:
                    self.anom('eltorito.2.3/section-after-last-header', base + off)
                hdr = {'indicator': b0, 'platform': cat[off + 1], 'count': struct.unpack_from('<H', cat, off + 2)[0], 'off': base + off,
                       'id': cat[off + 4:off + 32]}
                off += 32
                ents = []
                for _ in range(hdr['count']):
                    if off + 32 > SECTOR:
                        self.anom('eltorito.2.3/section-entries-beyond-catalog', base + off)
                        break
                    e = self._entry(cat, off, base)
                    ents.append(e)
                    self.entries.append(e)
                    off += 32
                    while off + 32 <= SECTOR and cat[off] == 0x44:
                        off += 32      # extension entries
                self.sections.append((hdr, ents))
                if b0 == 0x91:
                    last_seen = True
            elif not any(cat[off:off + 32]):
                if any(cat[off:]):
                    self.anom('eltorito.2.0/catalog-data-after-terminator', base + off)
                break
            else:
                self.anom('eltorito.2.3/entry-without-section-header', base + off, 'byte %#x' % b0)
                off += 32
        if self.sections and not last_seen:
            self.anom('eltorito.2.3/last-section-header-not-0x91', self.sections[-1][0]['off'])
        return self

    def _entry(self, cat, off, base):
        e = {'indicator': cat[off], 'media': cat[off + 1], 'load_seg': struct.unpack_from('<H', cat, off + 2)[0],
             'system_type': cat[off + 4], 'sector_count': struct.unpack_from('<H', cat, off + 6)[0],
             'rba': struct.unpack_from('<I', cat, off + 8)[0], 'off': base + off, 'criteria': cat[off + 12]}
        if e['indicator'] not in (0x88, 0x00):
            self.anom('eltorito.2.2/boot-indicator', base + off, hex(e['indicator']))
        if e['media'] & 0x0f > 4:
            self.anom('eltorito.2.2/media-type', base + off + 1, hex(e['media']))
        if cat[off + 5] != 0:
            self.anom('eltorito.2.2/entry-unused-byte', base + off + 5)
        self.fields.append((base + off + 8, 4, 'eltorito.load_rba'))
        self.fields.append((base + off + 6, 2, 'eltorito.sector_count'))
        return e


def boot_info_table_expected(file_bytes, pvd_sector, file_sector, orig_len):
    """The 56 bytes El Torito's boot info table must hold at offset 8."""
    total = 0
    body = file_bytes[64:]
    if len(body) % 4:
        body = body + b'\x00' * (4 - len(body) % 4)
    for (w,) in struct.iter_unpack('<I', body):
        total = (total + w) & 0xffffffff
    return struct.pack('<IIII', pvd_sector, file_sector, orig_len, total) + b'\x00' * 40


class Hybrid:
    """isohybrid system area: MBR, optional GPT (primary + backup), optional APM."""

    def __init__(self, data):
        self.data = data
        self.anoms = []
        self.fields = []
        self.present = False
        self.mbr = None
        self.parts = []
        self.gpt = None
        self.gpt_backup = None
        self.apm = []

    def anom(self, rule, off, detail=''):
        self.anoms.append(BAnom(rule, off, detail))

    def decode(self):
        d = self.data
        if len(d) < 512:
            return self
        if d[510:512] != b'\x55\xaa':
            if any(d[:32768]):
                self.anom('mbr/signature', 510, d[510:512].hex())
            return self
        self.present = True
        self.mbr = {'boot_lba_512': struct.unpack_from('<I', d, 432)[0], 'boot_lba_hi': struct.unpack_from('<I', d, 436)[0],
                    'disk_id': struct.unpack_from('<I', d, 440)[0], 'pad': d[444:446]}
        self.fields.append((432, 4, 'mbr.boot_file_address'))
        for k in range(4):
            o = 446 + 16 * k
            p = d[o:o + 16]
            status, sh, ssc, sc, ptype, eh, esc, ec, lba, count = struct.unpack('<BBBBBBBBII', p)
            self.parts.append({'slot': k + 1, 'status': status, 'type': ptype, 'lba': lba, 'count': count,
                               'start_chs': (((ssc & 0xc0) << 2) | sc, sh, ssc & 0x3f), 'end_chs': (((esc & 0xc0) << 2) | ec, eh, esc & 0x3f),
                               'raw': p, 'off': o})
            self.fields.append((o + 8, 4, 'mbr.part%d.lba' % (k + 1)))
            self.fields.append((o + 12, 4, 'mbr.part%d.count' % (k + 1)))
        # GPT
        if d[512:520] == b'EFI PART':
            self.gpt = self._gpt_header(512, 1, 'primary')
            total512 = len(d) // 512
            boff = (total512 - 1) * 512
            if d[boff:boff + 8] == b'EFI PART':
                self.gpt_backup = self._gpt_header(boff, total512 - 1, 'backup')
            else:
                self.anom('gpt/backup.missing-at-last-lba', boff)
        # APM
        if d[0:2] == b'ER' or d[2048:2050] == b'PM':
            self._apm()
        return self

    def _gpt_header(self, off, lba, which):
        d = self.data
        h = d[off:off + 92]
        rev, hsize, hcrc, res, cur, other, first, last = struct.unpack_from('<IIIIQQQQ', h, 8)
        guid = h[56:72]
        ent_lba, n, esize, ecrc = struct.unpack_from('<QIII', h, 72)
        g = {'which': which, 'off': off, 'rev': rev, 'hsize': hsize, 'hcrc': hcrc, 'cur': cur, 'other': other, 'first': first,
             'last': last, 'guid': guid, 'ent_lba': ent_lba, 'n': n, 'esize': esize, 'ecrc': ecrc, 'entries': []}
        if rev != 0x00010000:
            self.anom('gpt/%s.revision' % which, off + 8, hex(rev))
        if hsize != 92:
            self.anom('gpt/%s.header-size' % which, off + 12, str(hsize))
        calc = crc32(h[:16] + b'\x00\x00\x00\x00' + h[20:hsize if 92 <= hsize <= 512 else 92])
        if calc != hcrc:
            self.anom('gpt/%s.header-crc' % which, off + 16, 'got %#x want %#x' % (hcrc, calc))
        if cur != lba:
            self.anom('gpt/%s.current-lba' % which, off + 24, 'got %d want %d' % (cur, lba))
        if esize != 128:
            self.anom('gpt/%s.entry-size' % which, off + 84, str(esize))
        self.fields.append((off + 12, 4, 'gpt.%s.header_size' % which))
        self.fields.append((off + 16, 4, 'gpt.%s.header_crc' % which))
        self.fields.append((off + 24, 8, 'gpt.%s.current_lba' % which))
        self.fields.append((off + 32, 8, 'gpt.%s.other_lba' % which))
        self.fields.append((off + 40, 8, 'gpt.%s.first_usable_lba' % which))
        self.fields.append((off + 48, 8, 'gpt.%s.last_usable_lba' % which))
        self.fields.append((off + 72, 8, 'gpt.%s.entries_lba' % which))
        self.fields.append((off + 80, 4, 'gpt.%s.num_entries' % which))
        self.fields.append((off + 84, 4, 'gpt.%s.entry_size' % which))
        self.fields.append((off + 88, 4, 'gpt.%s.entries_crc' % which))
        eo = ent_lba * 512
        arr = d[eo:eo + n * esize]
        if len(arr) < n * esize or n > 4096:
            self.anom('gpt/%s.entry-array-out-of-image' % which, off + 72, 'lba=%d n=%d' % (ent_lba, n))
            return g
        if crc32(arr) != ecrc:
            self.anom('gpt/%s.entry-array-crc' % which, off + 88, 'got %#x want %#x' % (ecrc, crc32(arr)))
        g['array'] = arr
        for i in range(n):
            e = arr[i * esize:(i + 1) * esize]
            if not any(e[:16]):
                continue
            first_lba, last_lba, attrs = struct.unpack_from('<QQQ', e, 32)
            g['entries'].append({'type': e[:16], 'guid': e[16:32], 'first': first_lba, 'last': last_lba,
                                 'name': e[56:128].decode('utf-16_le', 'replace').rstrip('\x00'), 'index': i})
        return g

    def _apm(self):
        d = self.data
        for blk in range(1, 64):
            o = blk * 2048
            if d[o:o + 2] != b'PM':
                break
            mapcount, start, count = struct.unpack_from('>III', d, o + 4)
            self.apm.append({'off': o, 'map_count': mapcount, 'start': start, 'count': count,
                             'name': d[o + 16:o + 48].rstrip(b'\x00'), 'type': d[o + 48:o + 80].rstrip(b'\x00'),
                             'status': struct.unpack_from('>I', d, o + 88)[0]})
        # some layouts use 512-byte APM blocks
        if not self.apm:
            for blk in range(1, 64):
                o = blk * 512
                if d[o:o + 2] != b'PM':
                    break
                mapcount, start, count = struct.unpack_from('>III', d, o + 4)
                self.apm.append({'off': o, 'map_count': mapcount, 'start': start, 'count': count,
                                 'name': d[o + 16:o + 48].rstrip(b'\x00'), 'type': d[o + 48:o + 80].rstrip(b'\x00'),
                                 'status': struct.unpack_from('>I', d, o + 88)[0], 'bs': 512})
