"""Simulated storage: SimDisk (durable bytes + complete op log) and SimFile
(the exact file protocol pycdlib uses, with a fault plan)."""
import errno
import io
import os


class SimCrash(BaseException):
    """The simulated process died (raised out of a write; BaseException so
    that no ``except Exception`` inside the system under test can swallow it)."""


class Fault:
    """One fault rule.  op in {'read','write','seek','any'}; fires on the
    nth (1-based) matching call, or on the first call touching byte at_byte."""

    def __init__(self, op, action, nth=None, at_byte=None, err=errno.EIO, keep=0):
        self.op = op
        self.action = action      # 'raise' | 'short' | 'crash' | 'seekend_raise'
        self.nth = nth
        self.at_byte = at_byte
        self.err = err
        self.keep = keep          # for 'short': bytes to keep
        self.fired = 0

    def to_json(self):
        return {'op': self.op, 'action': self.action, 'nth': self.nth, 'at_byte': self.at_byte,
                'err': self.err, 'keep': self.keep}

    @staticmethod
    def from_json(d):
        return Fault(d['op'], d['action'], d.get('nth'), d.get('at_byte'), d.get('err', errno.EIO), d.get('keep', 0))


class SimDisk:
    def __init__(self, name='disk', data=b'', seqsrc=None):
        self.name = name
        self.data = bytearray(data)
        self.log = []             # (seq, op, offset, length)
        self.seqsrc = seqsrc
        self.bytes_read = 0
        self.bytes_requested = 0
        self.bytes_written = 0
        self.keep_log = True

    def record(self, op, off, ln):
        if self.keep_log:
            seq = self.seqsrc() if self.seqsrc else len(self.log)
            self.log.append((seq, op, off, ln))

    def snapshot(self):
        return bytes(self.data)

    def open(self, mode='rb', faults=None):
        return SimFile(self, mode, faults)


class SimFile:
    """Implements read, readinto, write, seek (all whences), tell, close,
    mode, flush; fileno raises io.UnsupportedOperation."""

    def __init__(self, disk, mode='rb', faults=None):
        self.disk = disk
        self.mode = mode
        self.pos = 0
        self.closed = False
        self.faults = list(faults or [])
        self.counts = {'read': 0, 'write': 0, 'seek': 0}
        self.crashed = False
        self.name = disk.name

    # -- fault machinery ---------------------------------------------------
    def _check(self, op, off, ln, whence=None):
        self.counts[op] += 1
        for f in self.faults:
            if f.op != op and f.op != 'any':
                continue
            if f.action == 'seekend_raise':
                if op == 'seek' and whence == os.SEEK_END:
                    f.fired += 1
                    raise OSError(f.err, 'simulated failure of seek(SEEK_END)')
                continue
            hit = False
            if f.nth is not None and self.counts[op] == f.nth:
                hit = True
            if f.at_byte is not None and f.fired == 0 and off <= f.at_byte < off + max(ln, 1):
                hit = True
            if not hit:
                continue
            f.fired += 1
            if f.action == 'raise':
                raise OSError(f.err, 'simulated %s on %s' % (errno.errorcode.get(f.err, f.err), op))
            if f.action == 'crash':
                self.crashed = True
                raise SimCrash('simulated crash at %s #%d' % (op, self.counts[op]))
            if f.action == 'short':
                return ('short', f.keep)
        return None

    def _live(self):
        if self.closed:
            raise ValueError('I/O operation on closed file.')

    # -- protocol ----------------------------------------------------------
    def readable(self):
        return 'r' in self.mode or '+' in self.mode

    def writable(self):
        return any(c in self.mode for c in 'wa+')

    def seekable(self):
        return True

    def fileno(self):
        raise io.UnsupportedOperation('fileno')

    def isatty(self):
        return False

    def flush(self):
        self._live()

    def tell(self):
        self._live()
        return self.pos

    def seek(self, off, whence=0):
        self._live()
        self._check('seek', self.pos, 0, whence)
        if whence == 0:
            new = off
        elif whence == 1:
            new = self.pos + off
        elif whence == 2:
            new = len(self.disk.data) + off
        else:
            raise ValueError('invalid whence')
        if new < 0:
            raise OSError(errno.EINVAL, 'Invalid argument')
        self.pos = new
        self.disk.record('seek', new, 0)
        return new

    def read(self, n=-1):
        self._live()
        if n is None or n < 0:
            n = max(0, len(self.disk.data) - self.pos)
        self.disk.bytes_requested += n
        r = self._check('read', self.pos, n)
        if r is not None and r[0] == 'short':
            n = min(n, r[1])
        data = bytes(self.disk.data[self.pos:self.pos + n])
        self.disk.record('read', self.pos, len(data))
        self.disk.bytes_read += len(data)
        self.pos += len(data)
        return data

    def readinto(self, b):
        data = self.read(len(b))
        b[:len(data)] = data
        return len(data)

    def write(self, b):
        self._live()
        if not self.writable():
            raise io.UnsupportedOperation('not writable')
        if self.crashed:
            return len(b)
        ln = len(b)
        self._check('write', self.pos, ln)
        d = self.disk.data
        if self.pos > len(d):
            d.extend(b'\x00' * (self.pos - len(d)))
        d[self.pos:self.pos + ln] = b
        self.disk.record('write', self.pos, ln)
        self.disk.bytes_written += ln
        self.pos += ln
        return ln

    def truncate(self, size=None):
        self._live()
        if size is None:
            size = self.pos
        del self.disk.data[size:]
        self.disk.record('truncate', size, 0)
        return size

    def close(self):
        self.closed = True

    def __enter__(self):
        return self

    def __exit__(self, *a):
        self.close()
        return False


def replay_writes(log_and_data, k):
    """Given [(offset, bytes)], apply the first k onto an empty buffer."""
    out = bytearray()
    for off, b in log_and_data[:k]:
        if off > len(out):
            out.extend(b'\x00' * (off - len(out)))
        out[off:off + len(b)] = b
    return bytes(out)


class RecordingFile(SimFile):
    """A SimFile that additionally keeps the written bytes per write, so a torn
    image (first k writes, or a subset) can be reconstructed."""

    def __init__(self, disk, mode='wb', faults=None):
        super().__init__(disk, mode, faults)
        self.writes = []

    def write(self, b):
        pos = self.pos
        n = super().write(b)
        self.writes.append((pos, bytes(b)))
        return n
