"""Catalogue of doomed calls: API calls that the documented rules refuse, computed
against the reference model's current state.  Used by C13 (the refusal must be
the library's invalid-input error, at the time of the edit) and C14 (a refused
call changes nothing).  Every entry names its cause; 'valid_otherwise' marks
calls whose *only* fault is a name or parameter rule (they pass the model's
structural validity check), the others are structurally invalid (duplicate,
missing parent, wrong entry type, ...)."""
from . import gen as G
from . import model as M


def _fresh(g, op_kind='add_fp', nss=None):
    """A valid add op from the ordinary generator, to be spoiled."""
    for _ in range(6):
        op = g.g_add_fp(nss=nss) if op_kind == 'add_fp' else g.g_add_dir(nss=nss)
        if op is not None:
            if op_kind == 'add_fp':
                g.next_blob -= 1          # doomed calls do not consume blob ids of the history
                op['blob'] = 800000 + g.ra.randrange(100000)
            return op
    return None


def _finish(op, cause, valid_otherwise=False, category=None):
    op['expect'] = 'refuse'
    op['cause'] = cause
    if valid_otherwise:
        op['valid_otherwise'] = True
    op['category'] = category or cause.split(':')[0]
    op['dt'] = 0.0
    return op


NS_ORDER = ('iso', 'joliet', 'udf')


class DoomedGen:
    def __init__(self, opgen):
        self.g = opgen
        self.m = opgen.m
        self.r = opgen.ra

    # ---- name rules (valid otherwise) --------------------------------------
    def bad_iso_file_name(self):
        m, r = self.m, self.r
        lvl = m.cfg['level']
        op = _fresh(self.g, 'add_fp', nss=['iso'] + [ns for ns in ('joliet', 'udf') if m.has(ns) and r.random() < 0.4])
        if op is None:
            return None
        parent, _ = M.split(op['iso'])
        choices = [('version-0', 'AB.C;0'), ('version-32768', 'AB.C;32768'), ('two-semicolons', 'AB;1;1'), ('empty-name-and-extension', '.;1')]
        if lvl < 4:
            choices += [('lower-case', 'ab.c;1'), ('non-d-character', 'A-B.C;1'), ('space', 'A B.C;1'), ('non-ascii', 'Aé.C;1'),
                        ('name-ends-in-newline', 'AB\n.C;1'), ('extension-ends-in-newline', 'AB.C\n;1'), ('control-character', 'A\x01B.C;1'),
                        ('name-starts-with-newline', '\nAB.C;1')]
        if lvl == 1 and m.generation == 0:
            # the interchange level is not recorded on disc: after open() the library infers one, so level-1-only
            # limits are only MUST_REFUSE on the object that was created with interchange_level=1
            choices += [('level1-name-9', 'ABCDEFGHI.C;1'), ('level1-ext-4', 'AB.CDEF;1')]
        cause, name = r.choice(choices)
        if not m.free('iso', M.join(parent, name)):
            return None
        op['iso'] = M.join(parent, name)
        return _finish(op, 'iso-file-name:' + cause, True)

    def bad_iso_dir_name(self):
        m, r = self.m, self.r
        lvl = m.cfg['level']
        op = _fresh(self.g, 'add_dir', nss=['iso'])
        if op is None:
            return None
        parent, _ = M.split(op['iso'])
        if m.rr and lvl < 4 and r.random() < 0.5:
            # where a valid name would be relocated (depth 8): the preparations for that must not outlive the refusal
            deep = [d for d in m.dirs('iso') if m.depth(d) == 7]
            if deep:
                parent = r.choice(deep)
        choices = []
        if lvl < 4:
            choices += [('lower-case', 'abc'), ('non-d-character', 'A.B'), ('dash', 'A-B'), ('ends-in-newline', 'ABC\n'), ('tab', 'A\tB')]
        if lvl == 1 and m.generation == 0:
            choices += [('level1-9-chars', 'ABCDEFGHI')]
        if lvl in (2, 3):
            choices += [('208-chars', 'D' * 208)]
        if not choices:
            return None
        cause, name = r.choice(choices)
        if not m.free('iso', M.join(parent, name)):
            return None
        op['iso'] = M.join(parent, name)
        return _finish(op, 'iso-dir-name:' + cause, True)

    def joliet_too_long(self):
        m, r = self.m, self.r
        if not m.has('joliet'):
            return None
        if r.random() < 0.25:
            # the same limit through add_hard_link (and UDF's through its own new path)
            op = self.g.g_add_link()
            if op is None:
                return None
            ns = r.choice([n_ for n_ in ('joliet', 'udf') if m.has(n_)])
            op['new_ns'] = ns
            op.pop('rr', None)
            parent = self.g._pick_dir(ns)
            n = r.choice((65, 66, 100, 110)) if ns == 'joliet' else r.choice((255, 256, 300))
            op['new'] = M.join(parent, ''.join(r.choice(G.RRCHARS.replace('.', '')) for _ in range(n)))
            return _finish(op, '%s-name-too-long:add_hard_link' % ns, True, 'name-rule')
        kind = r.choice(('add_fp', 'add_dir'))
        op = _fresh(self.g, kind, nss=[ns for ns in ('iso', 'joliet', 'udf') if m.has(ns) and (ns == 'joliet' or r.random() < 0.6)])
        if op is None or 'joliet' not in op:
            return None
        parent, _ = M.split(op['joliet'])
        if r.random() < 0.6:
            n = r.choice((65, 66, 100, 200))
            pool = G.RRCHARS.replace('.', '')
            op['joliet'] = M.join(parent, ''.join(r.choice(pool) for _ in range(n)))
        else:
            # at most 64 code points but more than 64 UCS-2 units: characters beyond the BMP take two
            n = r.choice((33, 34, 40, 50, 64))
            nm = ''.join(r.choice(G.UNI_ASTRAL) for _ in range(n))
            if r.random() < 0.5:
                nm = nm[:n - 3] + 'a.b'
                nm = r.choice(G.UNI_ASTRAL) * (33 - sum(1 for c in nm if ord(c) > 0xffff)) + nm if sum(1 for c in nm if ord(c) > 0xffff) < 33 else nm
                nm = nm[:64]
            op['joliet'] = M.join(parent, nm)
        where = ['iso', 'joliet', 'udf'].index('joliet')
        return _finish(op, 'joliet-name-longer-than-64:%s:%s' % (kind, '+'.join(ns for ns in ('iso', 'joliet', 'udf') if ns in op)), True, 'name-rule-in-2nd-namespace' if 'iso' in op else 'name-rule')

    def udf_too_long(self):
        """A UDF identifier that does not fit its one-byte length field (254 bytes of d-string payload)."""
        m, r = self.m, self.r
        if not m.has('udf'):
            return None
        kind = r.choice(('add_fp', 'add_dir'))
        op = _fresh(self.g, kind, nss=[ns for ns in ('iso', 'joliet', 'udf') if m.has(ns) and (ns == 'udf' or r.random() < 0.6)])
        if op is None or 'udf' not in op:
            return None
        parent, _ = M.split(op['udf'])
        if r.random() < 0.5:
            nm = ''.join(r.choice(G.RRCHARS.replace('.', '')) for _ in range(r.choice((255, 256, 300))))
        else:
            nm = ''.join(r.choice(G.UNI_BMP) for _ in range(r.choice((128, 129, 200))))
        op['udf'] = M.join(parent, nm)
        return _finish(op, 'udf-name-too-long:%s:%s' % (kind, '+'.join(ns for ns in ('iso', 'joliet', 'udf') if ns in op)), True,
                       'name-rule-in-later-namespace' if len([ns for ns in ('iso', 'joliet') if ns in op]) else 'name-rule')

    def rr_too_long(self):
        """A Rock Ridge name or symlink target whose overflow does not fit one continuation area."""
        m, r = self.m, self.r
        if not m.rr:
            return None
        kind = r.choice(('add_fp', 'add_dir', 'add_symlink'))
        n = r.choice((2100, 2500, 4000))
        if kind == 'add_symlink':
            op = self.g.g_add_symlink()
            if op is None or 'iso' not in op:
                return None
            if r.random() < 0.5:
                op['target'] = '/'.join('c' * 200 for _ in range(n // 200))
            else:
                op['rr'] = ''.join(r.choice(G.RRCHARS.replace('.', '')) for _ in range(n))
        else:
            op = _fresh(self.g, kind, nss=['iso'] + [ns for ns in ('joliet', 'udf') if m.has(ns) and r.random() < 0.5])
            if op is None or 'iso' not in op:
                return None
            op['rr'] = ''.join(r.choice(G.RRCHARS.replace('.', '')) for _ in range(n))
            if kind == 'add_dir' and m.cfg['level'] < 4 and r.random() < 0.6:
                # at relocation depth: the relocation directory must not be made for a directory that is then refused
                deep = [d for d in m.dirs('iso') if m.depth(d) == 7]
                if deep:
                    nm = M.split(op['iso'])[1]
                    cand = M.join(r.choice(deep), nm)
                    if m.free('iso', cand):
                        op['iso'] = cand
                        return _finish(op, 'rr-overflows-continuation-area:add_dir-at-relocation-depth', True, 'name-rule')
        return _finish(op, 'rr-overflows-continuation-area:%s' % kind, True, 'name-rule')

    def symlink_other_namespace_taken(self):
        """add_symlink whose Joliet (or UDF) name exists already while the ISO9660 name is free."""
        m, r = self.m, self.r
        op = self.g.g_add_symlink()
        if op is None:
            return None
        cands = [ns for ns in ('joliet', 'udf') if m.has(ns) and any(True for _ in m.iter_ns(ns))]
        if not cands:
            return None
        ns = r.choice(cands)
        p, n = r.choice(list(m.iter_ns(ns)))
        if ns == 'joliet':
            if 'iso' not in op:
                return None
            op['joliet'] = p
        else:
            op['udf'] = p
            op.setdefault('udf_target', 'x/y')
        return _finish(op, 'duplicate:add_symlink:%s-existing-%s:later-namespace' % (ns, n.kind), False, 'duplicate-in-namespace-2')

    def udf_symlink_component_too_long(self):
        """A UDF symlink target with a component that does not fit the one-byte component length."""
        m, r = self.m, self.r
        if not m.has('udf'):
            return None
        op = None
        for _ in range(6):
            op = self.g.g_add_symlink()
            if op is not None and op.get('udf'):
                break
        if op is None or not op.get('udf'):
            return None
        long = ''.join(r.choice(G.RRCHARS.replace('.', '')) for _ in range(r.choice((255, 256, 300)))) if r.random() < 0.6 else \
            ''.join(r.choice(G.UNI_BMP) for _ in range(r.choice((128, 200))))
        op['udf_target'] = r.choice(('', 'a/', '../')) + long + r.choice(('', '/b'))
        return _finish(op, 'udf-symlink-component-too-long:%s' % ('+'.join(ns for ns in ('iso', 'joliet', 'udf') if op.get(ns))), True, 'name-rule')

    def bad_new(self):
        """A new() with an argument the documentation refuses, on the object the history then starts on."""
        r = self.r
        cause, kw = r.choice((('joliet-level-5', {'joliet': 5}), ('interchange-level-5', {'interchange_level': 5}), ('sys-ident-too-long', {'sys_ident': 'S' * 33}),
                              ('vol-ident-too-long', {'vol_ident': 'V' * 33}), ('rock-ridge-version-unknown', {'rock_ridge': '9.99'}),
                              ('udf-version-unknown', {'udf': '9.99'}), ('app-use-too-long', {'app_use': 'A' * 513}),
                              ('set-size-too-big', {'set_size': 65536}), ('seqnum-above-set-size', {'set_size': 1, 'seqnum': 2})))
        return _finish({'op': 'bad_new', 'kw': kw}, 'new-arguments:' + cause, True, 'new-arguments')

    def bad_open(self):
        """At the next restart of the history the new object is first handed a damaged copy of the image (cut short, or with
        its descriptor set zeroed from some sector on); what it parsed before refusing must not colour the real open."""
        r = self.r
        return _finish({'op': 'bad_open', 'cut': r.choice((0.3, 0.5, 0.8, 0.95)), 'how': r.choice(('truncate', 'zero-tail'))}, 'open:damaged-image-first', True, 'open-arguments')

    def depth(self):
        m, r = self.m, self.r
        if m.rr or m.cfg['level'] == 4:
            return None
        deep = [d for d in m.dirs('iso') if m.depth(d) == 7]
        if not deep:
            return None
        parent = r.choice(deep)
        name = self.g._new_iso_name(parent, True)
        if name is None:
            return None
        op = {'op': 'add_dir', 'iso': M.join(parent, name)}
        return _finish(op, 'depth:directory-at-level-9', False, 'depth')

    # ---- duplicates (structurally invalid) --------------------------------------
    def duplicate_rr_name(self):
        """A second entry with a Rock Ridge name its directory already has (the ISO9660 identifier is new)."""
        m, r = self.m, self.r
        if not m.rr:
            return None
        cands = [(p, n) for p, n in m.iter_ns('iso') if n.rr and not n.reloc]
        if not cands:
            return None
        p, n = r.choice(cands)
        parent = M.split(p)[0]
        op = _fresh(self.g, r.choice(('add_fp', 'add_dir')), nss=['iso'])
        if op is None or 'iso' not in op:
            return None
        leaf = M.split(op['iso'])[1]
        if not M._valid_new(m, 'iso', M.join(parent, leaf)) or m.relocates(M.join(parent, leaf)):
            return None
        op['iso'] = M.join(parent, leaf)
        op['rr'] = n.rr
        return _finish(op, 'duplicate:rock-ridge-name-in-one-directory:%s' % op['op'], False, 'duplicate-rr-name')

    def duplicate(self):
        m, r = self.m, self.r
        nss = [ns for ns in m.roots]
        ns = r.choice(nss)
        existing = [(p, n) for p, n in m.iter_ns(ns)]
        if not existing:
            return None
        p, n = r.choice(existing)
        api = r.choice(('add_fp', 'add_dir', 'add_link', 'add_symlink'))
        # the other namespaces get fresh, valid names: an earlier part of the edit may already have been applied
        others = [o for o in m.roots if o != ns and r.random() < 0.6]
        if api in ('add_fp', 'add_dir'):
            op = _fresh(self.g, api, nss=others + ([ns] if True else []))
            if op is None:
                return None
            if ns not in op:
                return None
            op[ns] = p
            if ns == 'iso' and m.rr and not op.get('rr'):
                op['rr'] = 'dup%d' % r.randrange(10 ** 6)
            order = [x for x in ('iso', 'joliet', 'udf') if x in op]
            pos = order.index(ns) + 1
            return _finish(op, 'duplicate:%s:%s-existing-%s:namespace-%d-of-%d' % (api, ns, n.kind, pos, len(order)), False,
                           'duplicate-in-namespace-%d' % pos)
        if api == 'add_link':
            olds = [(o_ns, o_p) for o_ns in m.roots for o_p, o_n in m.iter_ns(o_ns) if o_n.kind == 'file' and isinstance(o_n.blob, int) and not o_n.noinode]
            if not olds:
                return None
            o_ns, o_p = r.choice(olds)
            op = {'op': 'add_link', 'old_ns': o_ns, 'old': o_p, 'new_ns': ns, 'new': p}
            if ns == 'iso' and m.rr:
                op['rr'] = 'dup%d' % r.randrange(10 ** 6)
            return _finish(op, 'duplicate:add_link:%s-existing-%s' % (ns, n.kind), False, 'duplicate')
        if api == 'add_symlink':
            if ns == 'iso' and m.rr:
                op = {'op': 'add_symlink', 'iso': p, 'rr': 'dup%d' % r.randrange(10 ** 6), 'target': 'x/y'}
                return _finish(op, 'duplicate:add_symlink:iso-existing-%s' % n.kind, False, 'duplicate')
            if ns == 'udf':
                op = {'op': 'add_symlink', 'udf': p, 'udf_target': 'x/y'}
                return _finish(op, 'duplicate:add_symlink:udf-existing-%s' % n.kind, False, 'duplicate')
        return None

    # ---- missing parent / wrong type ------------------------------------------
    def missing_parent(self):
        m, r = self.m, self.r
        ns = r.choice([ns for ns in m.roots])
        api = r.choice(('add_fp', 'add_dir'))
        op = _fresh(self.g, api, nss=[ns] + [o for o in m.roots if o != ns and r.random() < 0.5])
        if op is None or ns not in op:
            return None
        files = [p for p, n in m.iter_ns(ns) if n.kind == 'file']
        _, name = M.split(op[ns])
        if files and r.random() < 0.5:
            op[ns] = M.join(r.choice(files), name)
            cause = 'parent-is-a-file'
        else:
            ghost = 'NOSUCH%d' % r.randrange(1000) if ns == 'iso' else 'nosuch%d' % r.randrange(1000)
            op[ns] = '/' + ghost + '/' + name
            cause = 'missing-parent'
        order = [x for x in ('iso', 'joliet', 'udf') if x in op]
        pos = order.index(ns) + 1
        return _finish(op, '%s:%s:%s:namespace-%d-of-%d' % (cause, api, ns, pos, len(order)), False, '%s-in-namespace-%d' % (cause, pos))

    def wrong_type_rm(self):
        m, r = self.m, self.r
        ns = r.choice([ns for ns in m.roots])
        dirs = [p for p, n in m.iter_ns(ns) if n.kind == 'dir']
        files = [p for p, n in m.iter_ns(ns) if n.kind == 'file']
        nonempty = [p for p, n in m.iter_ns(ns) if n.kind == 'dir' and n.children]
        k = r.random()
        if k < 0.25 and dirs:
            return _finish({'op': 'rm_file', 'ns': ns, 'path': r.choice(dirs)}, 'wrong-type:rm_file-on-directory:%s' % ns, False, 'wrong-type')
        if k < 0.5 and files:
            return _finish({'op': 'rm_dir', ns: r.choice(files)}, 'wrong-type:rm_directory-on-file:%s' % ns, False, 'wrong-type')
        if k < 0.7 and nonempty and ns == 'iso':
            return _finish({'op': 'rm_dir', ns: r.choice(nonempty)}, 'wrong-type:rm_directory-non-empty:%s' % ns, False, 'wrong-type')
        if k < 0.85 and dirs:
            return _finish({'op': 'rm_link', 'ns': ns, 'path': r.choice(dirs)}, 'wrong-type:rm_hard_link-on-directory:%s' % ns, False, 'wrong-type')
        ghost = '/NOSUCH.;1' if ns == 'iso' else '/nosuch'
        if m.get(ns, ghost) is not None:
            return None
        api = r.choice(('rm_file', 'rm_link'))
        return _finish({'op': api, 'ns': ns, 'path': ghost}, 'missing-path:%s:%s' % (api, ns), False, 'missing-path')

    def removed_name(self):
        """A call on a name that existed earlier in the history and was removed: whatever still remembers it (a lookup memo
        that outlived the removal or a close()) must not let the call through, or half through."""
        m, r = self.m, self.r
        gone = [(ns, p, k) for ns, p, k in m.removed_names if ns in m.roots and m.get(ns, p) is None and m.get(ns, M.split(p)[0]) is not None]
        if not gone:
            return None
        ns, p, kind = r.choice(gone)
        if kind == 'dir':
            op = {'op': 'rm_dir', ns: p}
            # empty directories that do exist in the namespaces the call handles first
            for other in ('iso', 'joliet', 'udf'):
                if other == ns or other not in m.roots or NS_ORDER.index(other) > NS_ORDER.index(ns):
                    continue
                empties = [q for q, n in m.iter_ns(other) if n.kind == 'dir' and not n.children and not n.reloc]
                if empties and r.random() < 0.7:
                    op[other] = r.choice(empties)
            return _finish(op, 'missing-path:rm_directory-of-removed-name:%s' % ns, False, 'missing-path')
        api = r.choice(('rm_file', 'rm_link'))
        return _finish({'op': api, 'ns': ns, 'path': p}, 'missing-path:%s-of-removed-name:%s' % (api, ns), False, 'missing-path')

    def link_to_directory(self):
        """add_hard_link whose old path is a directory."""
        m, r = self.m, self.r
        op = self.g.g_add_link()
        if op is None or op['old_ns'] == 'bootcat':
            return None
        dirs = [p for p, n in m.iter_ns(op['old_ns']) if n.kind == 'dir' and p != '/']
        if not dirs:
            return None
        op['old'] = r.choice(dirs)
        return _finish(op, 'wrong-type:add_hard_link-from-directory:%s' % op['old_ns'], False, 'wrong-type')

    def rm_dir_partly_nonempty(self):
        """rm_directory naming several namespaces, empty in the first ones and not empty in a later one."""
        m, r = self.m, self.r
        nss = [ns for ns in ('iso', 'joliet', 'udf') if ns in m.roots]
        if len(nss) < 2:
            return None
        bad_ns = r.choice(nss[1:])
        nonempty = [p for p, n in m.iter_ns(bad_ns) if n.kind == 'dir' and n.children]
        # exactly one child is the interesting edge for UDF (its directories have one bookkeeping entry, not two)
        one = [p for p in nonempty if len(m.get(bad_ns, p).children) == 1]
        if one and r.random() < 0.7:
            nonempty = one
        if not nonempty:
            return None
        op = {'op': 'rm_dir', bad_ns: r.choice(nonempty)}
        for ns in nss:
            if ns == bad_ns:
                break
            empty = [p for p, n in m.iter_ns(ns) if n.kind == 'dir' and not n.children and not n.reloc]
            if empty and (len(op) == 1 or r.random() < 0.6):
                op[ns] = r.choice(empty)
        if len(op) < 2:
            return None
        order = [x for x in ('iso', 'joliet', 'udf') if x in op]
        return _finish(op, 'wrong-type:rm_directory-non-empty:%s:namespace-%d-of-%d' % (bad_ns, order.index(bad_ns) + 1, len(order)), False, 'wrong-type')

    def eltorito_protected(self):
        m, r = self.m, self.r
        if not m.eltorito:
            return None
        cands = []
        for ns in m.roots:
            for p, n in m.iter_ns(ns):
                if n.kind == 'file' and (n.blob == 'cat' or (isinstance(n.blob, int) and n.blob in m.eltorito_blobs())):
                    cands.append((ns, p, 'catalog' if n.blob == 'cat' else 'boot-file'))
        if not cands:
            return None
        ns, p, what = r.choice(cands)
        return _finish({'op': 'rm_file', 'ns': ns, 'path': p}, 'eltorito-referenced:rm_file-on-%s:%s' % (what, ns), False, 'eltorito-referenced')

    # ---- extension arguments on an image without the extension ---------------
    def wrong_extension(self):
        m, r = self.m, self.r
        missing = [ns for ns in ('joliet', 'udf') if not m.has(ns)]
        opts = []
        if missing:
            opts.append('ns')
        if not m.rr:
            opts.append('rr')
        else:
            opts.append('no-rr-name')
        if not opts:
            return None
        what = r.choice(opts)
        api = r.choice(('add_fp', 'add_dir'))
        op = _fresh(self.g, api, nss=['iso'])
        if op is None:
            return None
        if what == 'ns':
            ns = r.choice(missing)
            op[ns] = '/x%d' % r.randrange(1000)
            return _finish(op, 'extension-absent:%s:%s-argument' % (api, ns), False, 'extension-absent')
        if what == 'rr':
            op['rr'] = 'name'
            return _finish(op, 'extension-absent:%s:rr_name-without-rock-ridge' % api, False, 'extension-absent')
        op.pop('rr', None)
        return _finish(op, 'rr-name-missing:%s' % api, False, 'rr-name-missing')

    # ---- boot parameters ------------------------------------------------------
    def bad_boot(self):
        m, r = self.m, self.r
        cands = self.g._boot_candidates()
        k = r.random()
        if k < 0.2:
            if m.get('iso', '/NOBOOT.;1') is not None:
                return None
            op = {'op': 'add_eltorito', 'boot': '/NOBOOT.;1'}
            return _finish(op, 'boot:missing-boot-file', False, 'boot-parameters')
        if not cands:
            return None
        used = m.eltorito_blobs()
        cands = [(p, n) for p, n in cands if n.blob not in used]
        if not cands:
            return None
        p, n = r.choice(cands)
        b = m.blobs[n.blob]
        op = {'op': 'add_eltorito', 'boot': p, 'platform': 0, 'bootable': True, 'load_seg': 0, 'efi': False, 'bit': False}
        if k < 0.4:
            op['media'] = 'bogus'
            return _finish(op, 'boot:media-name-unknown', True, 'boot-parameters')
        if k < 0.6:
            if b.length in (1228800, 1474560, 2949120):
                return None
            op['media'] = 'floppy'
            return _finish(op, 'boot:floppy-with-wrong-size', True, 'boot-parameters')
        if k < 0.75:
            if any(off == 446 for off, h in b.overlays):
                return None
            op['media'] = 'hdemul'
            return _finish(op, 'boot:hdemul-%s' % ('file-shorter-than-512' if b.length < 512 else 'mbr-without-55aa'), True, 'boot-parameters')
        if k < 0.88 and not m.eltorito:
            # the boot catalog gets names too; a name the namespace rules refuse
            lvl = m.cfg['level']
            bad = [('catalog-iso-name-two-semicolons', 'cat', '/CAT;1;1'), ('catalog-iso-name-version-0', 'cat', '/CAT.;0')]
            if lvl < 4:
                bad += [('catalog-iso-name-lower-case', 'cat', '/lower.cat;1'), ('catalog-iso-name-non-d-character', 'cat', '/BOOT-CAT.;1')]
            if m.has('joliet'):
                bad.append(('catalog-joliet-name-too-long', 'joliet_cat', '/' + 'j' * 70))
            if m.has('udf'):
                bad.append(('catalog-udf-name-too-long', 'udf_cat', '/' + 'u' * 260))
            if not (m.rr or lvl == 4):
                deep = [d for d in m.dirs('iso') if m.depth(d) == 7]
                if deep:
                    bad.append(('catalog-iso-name-too-deep', 'cat', M.join(r.choice(deep), 'CAT.;1')))
            if m.rr:
                bad.append(('catalog-rock-ridge-name-overflows-continuation-area', 'rr_cat', 'c' * r.choice((2100, 3000))))
            cause, key, val = r.choice(bad)
            op[key] = val
            op['media'] = 'noemul'
            if m.rr and key != 'rr_cat':
                op['rr_cat'] = 'cat%d' % r.randrange(10 ** 6)
            return _finish(op, 'boot:' + cause, True, 'boot-parameters')
        # catalog name collides with an existing name
        if m.eltorito:
            return None
        files = [pp for pp, nn in m.iter_ns('iso') if nn.kind == 'file']
        if not files:
            return None
        op['cat'] = r.choice(files)
        op['media'] = 'noemul'
        if m.rr:
            op['rr_cat'] = 'cat%d' % r.randrange(10 ** 6)
        return _finish(op, 'boot:catalog-name-duplicate', False, 'boot-parameters')

    def bad_hybrid(self):
        m, r = self.m, self.r
        if not m.eltorito:
            return _finish({'op': 'add_isohybrid', 'part_entry': 1, 'sectors': 32, 'heads': 64}, 'hybrid:no-eltorito', False, 'hybrid-parameters')
        e0 = m.eltorito['entries'][0]
        b = m.blobs.get(e0['blob'])
        ok_sig = b is not None and any(off == 0x40 for off, h in b.overlays)
        if e0.get('load_size') != 4 or not ok_sig or m.hybrid:
            return None
        k = r.random()
        op = {'op': 'add_isohybrid', 'part_entry': 1, 'sectors': 32, 'heads': 64, 'part_offset': 0}
        if k < 0.35:
            op['sectors'] = r.choice((0, 64, 100))
            return _finish(op, 'hybrid:geometry-sectors-out-of-range', True, 'hybrid-parameters')
        if k < 0.7:
            op['heads'] = r.choice((0, 257, 1000))
            return _finish(op, 'hybrid:geometry-heads-out-of-range', True, 'hybrid-parameters')
        if k < 0.85 or any(e.get('efi') or e.get('platform') == 0xef for e in m.eltorito['entries']):
            op['mac'] = True
            op['efi'] = False
            return _finish(op, 'hybrid:mac-without-efi', True, 'hybrid-parameters')
        op['efi'] = True
        return _finish(op, 'hybrid:efi-without-efi-boot-entry', True, 'hybrid-parameters')

    def bad_relocated_name(self):
        """set_relocated_name() outside its documented preconditions."""
        m, r = self.m, self.r
        if not m.rr:
            return _finish({'op': 'set_relocated_name', 'name': 'MOVED', 'rr': 'moved'}, 'relocated-name:no-rock-ridge', False, 'relocated-name')
        if m.rr_moved_name is not None:
            other = 'X' + m.rr_moved_name[0][:6]
            if other == m.rr_moved_name[0]:
                other = 'Y' + other[1:]
            return _finish({'op': 'set_relocated_name', 'name': other, 'rr': m.rr_moved_name[1]}, 'relocated-name:already-set', False, 'relocated-name')
        if m.cfg['level'] != 4:
            bad = r.choice(('lower', 'A/B', 'SP ACE', '', 'X' * 256))
            return _finish({'op': 'set_relocated_name', 'name': bad, 'rr': 'moved'}, 'relocated-name:bad-identifier', True, 'relocated-name')
        return None

    def state(self):
        return _finish({'op': 'new_again'}, 'state:new-on-initialised-object', False, 'object-state')

    # ---- I/O faults --------------------------------------------------------------
    def io_fault_boot(self):
        m, r = self.m, self.r
        cands = self.g._boot_candidates()
        used = m.eltorito_blobs()
        cands = [(p, n) for p, n in cands if n.blob not in used and m.blobs[n.blob].gen == m.generation and m.blobs[n.blob].length >= 64]
        if not cands:
            return None
        p, n = r.choice(cands)
        b = m.blobs[n.blob]
        op = {'op': 'add_eltorito', 'boot': p, 'platform': 0, 'bootable': True, 'load_seg': 0, 'efi': False, 'bit': True, 'media': 'noemul'}
        nsect = (b.length + 2047) // 2048
        op['fault'] = {'target': 'blobfp', 'blob': n.blob, 'fault': {'op': 'read', 'action': 'raise', 'nth': r.randint(1, max(1, nsect)), 'err': 5}}
        return _finish(op, 'io-fault:boot-file-read-error-in-add_eltorito(boot_info_table)', True, 'io-fault')

    def io_fault_write(self):
        r = self.r
        k = r.random()
        op = {'op': 'write_fault'}
        if k < 0.4:
            op['fault'] = {'op': 'write', 'action': 'raise', 'nth': r.choice((1, 2, 3, 5, 8, 13, 21, 40)), 'err': 5}
            return _finish(op, 'io-fault:EIO-in-write_fp', True, 'io-fault')
        if k < 0.7:
            op['fault'] = {'op': 'write', 'action': 'raise', 'nth': r.choice((1, 2, 4, 9, 17, 33)), 'err': 28}
            return _finish(op, 'io-fault:ENOSPC-in-write_fp', True, 'io-fault')
        op['progress_raise_at'] = r.choice((1, 2, 3, 5, 10))
        return _finish(op, 'io-fault:progress_cb-raises-in-write_fp', True, 'io-fault')

    GENS = ('bad_iso_file_name', 'bad_iso_dir_name', 'joliet_too_long', 'udf_too_long', 'rr_too_long', 'symlink_other_namespace_taken', 'rm_dir_partly_nonempty', 'udf_symlink_component_too_long', 'bad_new', 'bad_open',
            'depth', 'duplicate', 'duplicate', 'duplicate', 'missing_parent',
            'missing_parent', 'wrong_type_rm', 'wrong_type_rm', 'eltorito_protected', 'wrong_extension', 'bad_boot', 'bad_hybrid', 'bad_relocated_name', 'link_to_directory', 'removed_name', 'removed_name', 'state',
            'io_fault_boot', 'io_fault_write')

    NAME_RULE_GENS = ('bad_iso_file_name', 'bad_iso_file_name', 'bad_iso_dir_name', 'joliet_too_long', 'depth', 'duplicate', 'duplicate', 'duplicate', 'duplicate_rr_name')

    def any(self, kinds=None):
        kinds = kinds or self.GENS
        for _ in range(10):
            op = getattr(self, self.r.choice(kinds))()
            if op is not None:
                return op
        return None

    def all_applicable(self, kinds=None):
        """One doomed call per generator that applies to the current state (fault enumeration)."""
        out = []
        for k in sorted(set(kinds or self.GENS)):
            for _ in range(3):
                op = getattr(self, k)()
                if op is not None:
                    out.append(op)
                    break
        return out
