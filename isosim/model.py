"""Reference model: a small executable specification of what an image *is*
(four namespaces of entries over shared, attributable blobs), not of how
pycdlib lays it out.  Ops are JSON-serialisable dicts (see gen.py)."""
import copy

NSS = ('iso', 'joliet', 'udf')


class Node:
    __slots__ = ('kind', 'children', 'blob', 'hidden', 'rr', 'target', 'mode', 'noinode', 'uid', 'gen', 'reloc')

    def __init__(self, kind, uid, blob=None, rr=None, target=None, mode=None, noinode=False, gen=0):
        self.kind = kind              # 'dir' | 'file' | 'symlink'
        self.children = {} if kind == 'dir' else None
        self.blob = blob              # blob id | 'cat' | None
        self.hidden = False
        self.rr = rr
        self.target = target
        self.mode = mode
        self.noinode = noinode        # record without data identity (UDF-symlink companion)
        self.uid = uid
        self.gen = gen                # generation in which the node was created
        self.reloc = None             # Rock Ridge relocation: identifier the directory got under the relocation directory


class Blob:
    __slots__ = ('id', 'length', 'overlays', 'bit', 'gen', 'baked')

    def __init__(self, bid, length, overlays=(), gen=0):
        self.id = bid
        self.length = length
        self.overlays = [tuple(o) for o in overlays]
        self.bit = False              # boot info table requested for it
        self.baked = False            # mastered at least once with the table: bytes 8..63 on disc are the table
        self.gen = gen


def split(path):
    """'/A/B' -> ('/A', 'B'); '/A' -> ('/', 'A')"""
    i = path.rfind('/')
    parent = path[:i] or '/'
    return parent, path[i + 1:]


def join(parent, name):
    return (parent if parent != '/' else '') + '/' + name


class Model:
    def __init__(self, cfg):
        self.cfg = dict(cfg)
        self._uid = 0
        self.roots = {'iso': self._node('dir')}
        if cfg.get('joliet'):
            self.roots['joliet'] = self._node('dir')
        if cfg.get('udf'):
            self.roots['udf'] = self._node('dir')
        self.blobs = {}
        self.eltorito = None
        self.hybrid = None
        self.pvd_dups = 0
        self.generation = 0
        self.removed_names = []       # (ns, path) that existed and were removed (for re-add ops)
        self.dead_blobs = {}          # blob id -> Blob released (for conservation scans)
        self.rr_moved_name = None      # what set_relocated_name() configured in this generation (takes effect when the directory is next created)
        self.rr_moved_actual = None    # the names of the relocation directory that exists

    # -- helpers -------------------------------------------------------
    def _node(self, kind, **kw):
        self._uid += 1
        return Node(kind, self._uid, gen=getattr(self, 'generation', 0), **kw)

    @property
    def rr(self):
        return self.cfg.get('rr')

    def has(self, ns):
        if ns == 'rr':
            return bool(self.rr)
        return ns in self.roots

    def get(self, ns, path):
        if ns == 'rr':
            return self.get_rr(path)
        node = self.roots.get(ns)
        if node is None:
            return None
        if path == '/':
            return node
        for comp in path.split('/')[1:]:
            if node.kind != 'dir':
                return None
            node = node.children.get(comp)
            if node is None:
                return None
        return node

    def get_rr(self, path):
        node = self.roots['iso']
        if path == '/':
            return node
        for comp in path.split('/')[1:]:
            if node.kind != 'dir':
                return None
            for ch in node.children.values():
                if ch.rr == comp:
                    node = ch
                    break
            else:
                return None
        return node

    def rr_to_iso(self, path):
        """Translate a Rock Ridge path to the ISO path of the same entry."""
        node = self.roots['iso']
        out = ''
        if path == '/':
            return '/'
        for comp in path.split('/')[1:]:
            for nm, ch in node.children.items():
                if ch.rr == comp:
                    node = ch
                    out += '/' + nm
                    break
            else:
                return None
        return out

    def iter_ns(self, ns):
        """Yield (path, node) for every entry of a namespace except the root."""
        root = self.roots.get(ns)
        if root is None:
            return
        stack = [('/', root)]
        while stack:
            p, n = stack.pop()
            for nm in sorted(n.children):
                ch = n.children[nm]
                cp = join(p, nm)
                yield cp, ch
                if ch.kind == 'dir':
                    stack.append((cp, ch))

    def dirs(self, ns):
        out = ['/']
        out.extend(p for p, n in self.iter_ns(ns) if n.kind == 'dir')
        return out

    def files(self, ns):
        return [p for p, n in self.iter_ns(ns) if n.kind == 'file']

    def depth(self, path):
        return 0 if path == '/' else path.count('/')

    def names_of_blob(self, bid):
        out = []
        for ns in self.roots:
            for p, n in self.iter_ns(ns):
                if n.kind == 'file' and n.blob == bid and not n.noinode:
                    out.append((ns, p))
        return out

    def eltorito_blobs(self):
        if not self.eltorito:
            return set()
        return {e['blob'] for e in self.eltorito['entries']}

    def blob_live(self, bid):
        return bool(self.names_of_blob(bid)) or bid in self.eltorito_blobs()

    def _insert(self, ns, path, node):
        parent, name = split(path)
        p = self.get(ns, parent)
        assert p is not None and p.kind == 'dir', (ns, path)
        assert name not in p.children, (ns, path)
        p.children[name] = node

    def _remove(self, ns, path):
        parent, name = split(path)
        p = self.get(ns, parent)
        node = p.children.pop(name)
        self.removed_names.append((ns, path, node.kind))
        if ns == 'iso' and node.rr:
            if not hasattr(self, 'removed_rr'):
                self.removed_rr = {}
            self.removed_rr[path] = node.rr
        return node

    def _gc(self):
        live = set()
        for ns in self.roots:
            for p, n in self.iter_ns(ns):
                if n.kind == 'file' and isinstance(n.blob, int):
                    live.add(n.blob)
        live |= self.eltorito_blobs()
        for bid in list(self.blobs):
            if bid not in live:
                self.dead_blobs[bid] = self.blobs.pop(bid)

    # -- validity helpers for the generator ------------------------------------
    def free(self, ns, path):
        parent, name = split(path)
        p = self.get(ns, parent)
        return p is not None and p.kind == 'dir' and name not in p.children

    def rr_free(self, iso_parent, rrname):
        p = self.get('iso', iso_parent)
        if iso_parent == '/' and rrname in self.reserved_root_names()[1]:
            return False
        return p is not None and all(ch.rr != rrname for ch in p.children.values())

    # -- transitions ----------------------------------------------------------
    def apply(self, op):
        f = getattr(self, 'op_' + op['op'], None)
        if f is not None:       # non-mutating ops (queries, force, scratch writes) have no transition
            f(op)

    def op_add_fp(self, op):
        bid = op['blob']
        self.blobs[bid] = Blob(bid, op['len'], op.get('overlays') or (), gen=self.generation)
        for ns in NSS:
            p = op.get(ns)
            if p:
                self._insert(ns, p, self._node('file', blob=bid, rr=op.get('rr') if ns == 'iso' else None,
                                               mode=self.file_mode(op) if ns == 'iso' else None))

    def file_mode(self, op):
        if not self.rr:
            return None
        m = op.get('mode')
        return m if m is not None else 0o100444

    def op_add_dir(self, op):
        for ns in NSS:
            p = op.get(ns)
            if p:
                mode = None
                if ns == 'iso' and self.rr:
                    mode = op['mode'] if op.get('mode') is not None else 0o040555
                node = self._node('dir', rr=op.get('rr') if ns == 'iso' else None, mode=mode)
                self._insert(ns, p, node)
                if ns == 'iso' and self.relocates(p):
                    # Rock Ridge deep-directory relocation: the directory physically lives in the relocation directory,
                    # a placeholder record stays where the user put it (RRIP 4.1.5)
                    name = split(p)[1]
                    taken = {n.reloc for _, n in self.iter_ns('iso') if n.reloc and n is not node}
                    phys, idx = name, 0
                    while phys in taken:
                        phys = name + '%03d' % idx
                        idx += 1
                    had = any(n.reloc for _, n in self.iter_ns('iso') if n is not node)
                    node.reloc = phys
                    if not had:
                        # the relocation directory is created now, under the configured names or the default ones
                        self.rr_moved_name = self.rr_moved_name or self.RR_MOVED
                        self.rr_moved_actual = tuple(self.rr_moved_name)

    def op_rm_file(self, op):
        node = self.get(op['ns'], op['path'])
        if node.noinode or not isinstance(node.blob, int):
            self._remove(op['ns'], op['path'])
        else:
            for ns, p in self.names_of_blob(node.blob):
                self._remove(ns, p)
        self._gc()

    def op_rm_dir(self, op):
        for ns in NSS:
            p = op.get(ns)
            if p:
                self._remove(ns, p)

    def op_add_link(self, op):
        if op['old_ns'] == 'bootcat':
            blob = 'cat'
        else:
            blob = self.get(op['old_ns'], op['old']).blob
        ns = op['new_ns']
        mode = None
        if ns == 'iso' and self.rr:
            # the new name takes the POSIX mode of the ISO9660 name it links to; linked from elsewhere it gets the default
            mode = 0o100444
            if op['old_ns'] == 'iso':
                old = self.get('iso', op['old'])
                if old is not None and old.mode is not None:
                    mode = old.mode
        self._insert(ns, op['new'], self._node('file', blob=blob, rr=op.get('rr') if ns == 'iso' else None, mode=mode))

    def op_rm_link(self, op):
        self._remove(op['ns'], op['path'])
        self._gc()

    def op_add_symlink(self, op):
        if op.get('rr'):
            self._insert('iso', op['iso'], self._node('symlink', rr=op['rr'], target=op['target'], mode=None))
        if op.get('udf'):
            if not op.get('rr') and op.get('iso'):
                self._insert('iso', op['iso'], self._node('file', blob=None, noinode=True))
            self._insert('udf', op['udf'], self._node('symlink', target=op['udf_target']))
        if op.get('joliet'):
            self._insert('joliet', op['joliet'], self._node('file', blob=None, noinode=True))

    def op_hide(self, op):
        self.get(op['ns'], op['path']).hidden = bool(op['on'])

    def op_add_eltorito(self, op):
        bootnode = self.get('iso', op['boot'])
        entry = {k: op.get(k) for k in ('load_size', 'platform', 'bit', 'efi', 'media', 'bootable', 'load_seg')}
        entry['blob'] = bootnode.blob
        if op.get('bit'):
            self.blobs[bootnode.blob].bit = True
        if self.eltorito is None:
            names = {}
            cat = op.get('cat') or '/BOOT.CAT;1'
            names['iso'] = cat
            rrn = None
            if self.rr:
                rrn = op.get('rr_cat') if op.get('rr_cat') is not None else 'boot.cat'
            self._insert('iso', cat, self._node('file', blob='cat', rr=rrn, mode=None))
            if self.has('joliet'):
                names['joliet'] = op.get('joliet_cat') or '/boot.cat'
                self._insert('joliet', names['joliet'], self._node('file', blob='cat'))
            if self.has('udf'):
                names['udf'] = op.get('udf_cat') or '/boot.cat'
                self._insert('udf', names['udf'], self._node('file', blob='cat'))
            self.eltorito = {'entries': [entry], 'platform': op.get('platform') or 0}
        else:
            self.eltorito['entries'].append(entry)

    def op_rm_eltorito(self, op):
        for ns in list(self.roots):
            for p, n in list(self.iter_ns(ns)):
                if n.kind == 'file' and n.blob == 'cat':
                    self._remove(ns, p)
        for e in self.eltorito['entries']:
            b = self.blobs.get(e['blob'])
            if b is not None:
                b.bit = False
        self.eltorito = None
        self.hybrid = None        # since 'rm_eltorito takes the isohybrid structures with it'
        self._gc()

    def op_add_isohybrid(self, op):
        self.hybrid = {k: op.get(k) for k in ('part_entry', 'mbr_id', 'part_offset', 'sectors', 'heads', 'part_type', 'mac', 'efi')}
        self.hybrid['_gen'] = self.generation

    def op_rm_isohybrid(self, op):
        self.hybrid = None

    def op_modify(self, op):
        """modify_file_in_place: every name of the file's content now has the new content."""
        node = self.get('iso', op['iso'])
        old = node.blob
        new = op['blob']
        self.blobs[new] = Blob(new, op['len'], (), gen=self.generation)
        for ns in self.roots:
            for p, n in self.iter_ns(ns):
                if n.kind == 'file' and n.blob == old:
                    n.blob = new
        if self.eltorito:
            for e in self.eltorito['entries']:
                if e['blob'] == old:
                    e['blob'] = new          # the entry boots whatever the file now holds
        self._gc()

    def op_dup_pvd(self, op):
        self.pvd_dups += 1

    def op_set_relocated_name(self, op):
        self.rr_moved_name = (op['name'], op['rr'])

    def stored_bytes(self):
        """Lower bound of the file data in the image (what a partition offset has to stay below)."""
        live = {n.blob for ns in self.roots for _, n in self.iter_ns(ns) if n.kind == 'file' and isinstance(n.blob, int)}
        return sum(self.blobs[b].length for b in live if b in self.blobs)

    def moved_names(self):
        return tuple(self.rr_moved_actual or self.RR_MOVED)

    def reserved_root_names(self):
        """(ISO9660 identifiers, Rock Ridge names) the relocation directory has or would get: not for the user's entries."""
        pairs = [self.RR_MOVED, self.rr_moved_name, self.rr_moved_actual]
        return {p_[0] for p_ in pairs if p_}, {p_[1] for p_ in pairs if p_}

    def op_restart(self, op):
        self.generation += 1
        self.rr_moved_name = None         # not on the disc; an existing relocation directory keeps its names
        if not self.rr_moved:
            self.rr_moved_actual = None
        # Zero-length content has no location on disc, so an ISO9660/Joliet name
        # of it has no recorded tie to any other name: after a restart each such
        # name is a file of its own.  UDF names of one zero-length file share a
        # File Entry and stay together.
        for ns in ('iso', 'joliet'):
            for p, n in list(self.iter_ns(ns)):
                if n.kind != 'file' or n.blob == 'cat':
                    continue
                if n.blob is None or (isinstance(n.blob, int) and self.blobs[n.blob].length == 0):
                    self._uid += 1
                    nb = 1000000 + self._uid
                    self.blobs[nb] = Blob(nb, 0, (), gen=self.generation)
                    n.blob = nb
                    n.noinode = False
        self._gc()
        for b in self.blobs.values():
            if b.bit:
                # mastering overwrote bytes 8..63 of the stored file; the image
                # format keeps no copy of the supplied bytes
                b.baked = True

    # -- expected views -------------------------------------------------------
    def content_key(self, node):
        if node.kind != 'file':
            return None
        if node.blob == 'cat':
            return ('cat',)
        if node.blob is None:
            return ('empty',)
        b = self.blobs[node.blob]
        if b.length == 0:
            return ('empty',)
        if b.length < 8:
            # too short to carry a blob id: compared by value
            from . import content as _c
            return ('tiny', _c.blob_bytes(b.id, b.length).hex())
        return ('blob', node.blob)

    def relocates(self, iso_path):
        """Does a directory added under this (logical) ISO9660 path get relocated?"""
        return bool(self.rr) and self.cfg['level'] != 4 and self.depth(iso_path) % 8 == 0 and self.depth(iso_path) > 0

    RR_MOVED = ('RR_MOVED', 'rr_moved')

    def phys(self, ns, path):
        """Where an independent reader of namespace ns finds the entry the user calls `path`: the same path, except below a
        relocated directory in the ISO9660 namespace (that subtree lives in the relocation directory)."""
        if ns != 'iso' or path == '/':
            return path
        node = self.roots['iso']
        out = ''
        for comp in path.split('/')[1:]:
            node = node.children.get(comp) if node is not None and node.kind == 'dir' else None
            if node is not None and node.kind == 'dir' and node.reloc:
                out = '/' + self.moved_names()[0] + '/' + node.reloc
            else:
                out += '/' + comp
        return out

    @property
    def rr_moved(self):
        """The relocation directory exists while it holds a relocated directory (it goes away with the last one)."""
        return any(n.reloc for _, n in self.iter_ns('iso'))

    def view(self):
        """What every namespace must show: path -> tuple."""
        out = {}
        v = {'/': ('dir', False, None)}
        if not self.rr_moved:
            for p, n in self.iter_ns('iso'):
                v[p] = ('dir' if n.kind == 'dir' else 'file', n.hidden, self.content_key(n))
        else:
            # the ISO9660 namespace shows the physical layout: relocated directories under the relocation directory,
            # a placeholder (a non-directory record) where the user put them
            mv = '/' + self.moved_names()[0]
            v[mv] = ('dir', False, None)
            stack = [('/', self.roots['iso'])]
            while stack:
                pp, n = stack.pop()
                for nm in sorted(n.children):
                    ch = n.children[nm]
                    if ch.kind == 'dir' and ch.reloc:
                        v[join(pp, nm)] = ('file', ch.hidden, ('reloc',))
                        cp = join(mv, ch.reloc)
                    else:
                        cp = join(pp, nm)
                    v[cp] = ('dir' if ch.kind == 'dir' else 'file', ch.hidden, self.content_key(ch))
                    if ch.kind == 'dir':
                        stack.append((cp, ch))
        out['iso'] = v
        if self.rr:
            v = {'/': ('dir', None, None, None)}
            if self.rr_moved:
                v['/' + self.moved_names()[1]] = ('dir', None, None, None)
            stack = [('/', self.roots['iso'])]
            while stack:
                p, n = stack.pop()
                for nm in sorted(n.children):
                    ch = n.children[nm]
                    cp = join(p, ch.rr)
                    v[cp] = (ch.kind, self.content_key(ch), ch.target, ch.mode)
                    if ch.kind == 'dir':
                        stack.append((cp, ch))
            out['rr'] = v
        if 'joliet' in self.roots:
            v = {'/': ('dir', False, None)}
            for p, n in self.iter_ns('joliet'):
                v[p] = ('dir' if n.kind == 'dir' else 'file', n.hidden, self.content_key(n))
            out['joliet'] = v
        if 'udf' in self.roots:
            v = {'/': ('dir', None, None)}
            for p, n in self.iter_ns('udf'):
                v[p] = (n.kind, self.content_key(n), n.target)
            out['udf'] = v
        return out

    def clone(self):
        return copy.deepcopy(self)

    def shape(self):
        """A coarse fingerprint of the state, for distinct-state counting."""
        parts = [tuple(sorted((k, str(v)) for k, v in self.cfg.items()))]
        for ns in NSS:
            if ns in self.roots:
                nd = nf = ns_ = 0
                maxd = 0
                for p, n in self.iter_ns(ns):
                    if n.kind == 'dir':
                        nd += 1
                    elif n.kind == 'file':
                        nf += 1
                    else:
                        ns_ += 1
                    maxd = max(maxd, p.count('/'))
                parts.append((ns, nd, nf, ns_, maxd))
        parts.append(('blobs', len(self.blobs), sum(1 for b in self.blobs.values() if b.length == 0)))
        parts.append(('et', len(self.eltorito['entries']) if self.eltorito else 0, bool(self.hybrid), self.pvd_dups, self.generation))
        return tuple(parts)


# -- validity of an op against the documented preconditions -------------------
def _valid_new(m, ns, path, isdir=False):
    if not path or not m.has(ns):
        return False
    parent, name = split(path)
    p = m.get(ns, parent)
    if p is None or p.kind != 'dir' or name in p.children:
        return False
    if ns == 'iso':
        base = name.split(';')[0]
        if any(k.split(';')[0] == base for k in p.children):
            return False
        if parent == '/' and m.rr and base.rstrip('.') in m.reserved_root_names()[0]:
            return False
        if not (m.rr or m.cfg['level'] == 4):
            if m.depth(path) > 7:
                return False
    return True


def _valid_rr(m, op, iso_key='iso', rr_key='rr'):
    if op.get(rr_key) in ('.', '..'):
        return False      # outside the modelled domain: POSIX reserves these names (the library takes them, and the path then names the directory)
    if m.rr:
        if op.get(iso_key):
            if not op.get(rr_key):
                return False
            return m.rr_free(split(op[iso_key])[0], op[rr_key])
        return not op.get(rr_key)
    return not op.get(rr_key)


def hide_ok(m, node):
    """Removing the *last* name of an El Torito boot file hides it; the image
    then records only the emulated sector count for it, so a hidden boot file
    keeps its length across a restart only when that count was derived from
    the file (no explicit boot_load_size).  Explicit sizes are C11's business."""
    if not isinstance(node.blob, int) or not m.eltorito:
        return True
    ents = [e for e in m.eltorito['entries'] if e['blob'] == node.blob]
    if not ents:
        return True
    if len(m.names_of_blob(node.blob)) > 1:
        return True
    return all(e.get('load_size') is None and (e.get('media') or 'noemul') == 'noemul' for e in ents)


def valid(m, op):
    """True iff ``op`` satisfies the documented preconditions in state ``m``
    (used when a shrunk or replayed op list is re-run: ops that became
    invalid because a prerequisite was dropped are skipped, never executed)."""
    k = op['op']
    if k == 'add_fp' or k == 'add_dir':
        given = [ns for ns in NSS if op.get(ns)]
        if not given:
            return False
        for ns in given:
            if not _valid_new(m, ns, op[ns], k == 'add_dir'):
                return False
        if op.get('mode') is not None and not m.rr:
            return False
        if k == 'add_fp' and (op['blob'] in m.blobs or op['blob'] in m.dead_blobs):
            return False
        return _valid_rr(m, op)
    if k in ('rm_file', 'rm_link') and m.hybrid and (m.hybrid.get('part_offset') or 0) > 64:
        # outside the modelled domain: shrinking an image whose hybrid partition starts far inside it (whether the start
        # still lies inside the image is only known at mastering time, and write_fp fails with struct.error when not)
        return False
    if k == 'rm_file':
        n = m.get(op['ns'], op['path'])
        if n is None or n.kind != 'file' or n.blob == 'cat':
            return False
        if isinstance(n.blob, int) and n.blob in m.eltorito_blobs():
            return False
        if op['ns'] == 'udf' and n.noinode:
            return False
        return True
    if k == 'rm_dir':
        given = [ns for ns in NSS if op.get(ns)]
        if not given:
            return False
        for ns in given:
            n = m.get(ns, op[ns])
            if n is None or n.kind != 'dir' or n.children or op[ns] == '/':
                return False
        return True
    if k == 'add_link':
        if op['old_ns'] == 'bootcat':
            if not m.eltorito:
                return False
        else:
            n = m.get(op['old_ns'], op['old'])
            if n is None or n.kind != 'file' or not isinstance(n.blob, int) or n.noinode:
                return False
        if not _valid_new(m, op['new_ns'], op['new']):
            return False
        if op['new_ns'] == 'iso':
            return _valid_rr(m, op, 'new', 'rr')
        return not op.get('rr')
    if k == 'rm_link':
        n = m.get(op['ns'], op['path'])
        if n is None:
            return False
        if n.kind == 'file' and n.blob == 'cat':
            return True
        if n.kind == 'file':
            return not (op['ns'] == 'udf' and n.noinode) and hide_ok(m, n)
        return n.kind == 'symlink' and op['ns'] == 'udf'
    if k == 'add_symlink':
        if op.get('rr'):
            if not m.rr or not _valid_new(m, 'iso', op.get('iso')) or not _valid_rr(m, op):
                return False
        if op.get('udf'):
            if not _valid_new(m, 'udf', op['udf']):
                return False
            if not op.get('rr') and op.get('iso'):
                if m.rr or not _valid_new(m, 'iso', op['iso']):
                    return False
        if op.get('joliet'):
            if not _valid_new(m, 'joliet', op['joliet']):
                return False
        return bool(op.get('rr') or op.get('udf'))
    if k == 'hide':
        n = m.get(op['ns'], op['path'])
        if n is None or op['path'] == '/':
            return False
        if op.get('via') == 'rr':
            return m.rr_to_iso(op['rrpath']) == op['path']
        return True
    if k == 'add_eltorito':
        n = m.get('iso', op['boot'])
        if n is None or n.kind != 'file' or not isinstance(n.blob, int) or n.noinode:
            return False
        b = m.blobs[n.blob]
        if b.length == 0:
            return False
        if op.get('bit') and b.bit:
            return False
        if m.eltorito:
            return len(m.eltorito['entries']) < 32
        cat = op.get('cat') or '/BOOT.CAT;1'
        if not _valid_new(m, 'iso', cat):
            return False
        if m.rr:
            rrn = op.get('rr_cat') if op.get('rr_cat') is not None else 'boot.cat'
            if not m.rr_free(split(cat)[0], rrn):
                return False
        elif op.get('rr_cat'):
            return False
        for ns, key in (('joliet', 'joliet_cat'), ('udf', 'udf_cat')):
            if m.has(ns):
                if not _valid_new(m, ns, op.get(key) or '/boot.cat'):
                    return False
            elif op.get(key):
                return False
        return True
    if k == 'rm_eltorito':
        return bool(m.eltorito)
    if k == 'add_isohybrid':
        if not m.eltorito or m.hybrid:
            return False
        e0 = m.eltorito['entries'][0]
        b = m.blobs.get(e0['blob'])
        if b is None or e0.get('load_size') != 4:
            return False
        efi = bool(op.get('efi')) or bool(op.get('mac'))
        if (efi and op.get('part_entry') == 2) or (op.get('mac') and op.get('part_entry') == 3):
            return False     # refused since the fix 'refuse a hybrid partition entry that the EFI or Mac image needs'
        if op.get('mac') and op.get('part_type') not in (None, 0):
            return False
        if (op.get('part_offset') or 0) > 64 and (op.get('part_offset') or 0) * 512 * 1.25 > m.stored_bytes():
            return False     # outside the modelled domain: a partition that starts behind the end of the image
        n_efi = len([e for e in m.eltorito['entries'][1:] if e.get('efi')])
        if efi and n_efi < 1:
            return False     # refused since the fix 'add_isohybrid refuses EFI support without an EFI boot entry'
        if op.get('mac') and n_efi < 2:
            return False     # outside the modelled domain: the Mac partition describes the second EFI image
        return any(off == 0x40 and bytes.fromhex(h)[:4] == b'\xfb\xc0\x78\x70' for off, h in b.overlays)
    if k == 'rm_isohybrid':
        return bool(m.hybrid)
    if k == 'dup_pvd':
        return True
    if k == 'new_again':
        return False
    if k == 'set_relocated_name':
        if not m.rr or m.rr_moved_name is not None or m.cfg['level'] == 4:
            return False
        root = m.roots['iso']
        if any(k.split(';')[0].rstrip('.') == op['name'] for k in root.children) or any(ch.rr == op['rr'] for ch in root.children.values()):
            return False
        return True
    return True
