"""Driver: applies ops to the real PyCdlib object(s) under the installed seams
and keeps the reference model in step."""
import zlib
import importlib
import io
import os
import types

from . import content
from . import gen as G
from . import model as M
from .disk import SimDisk, SimFile, RecordingFile


class SimFS:
    """A tiny in-memory tree (name -> SimDisk) behind an injected ``open`` and
    ``os.stat`` for the filename routes (add_file, open, write, get_file_from_iso)."""
    PREFIX = '/simfs/'

    def __init__(self, seqsrc=None):
        self.files = {}
        self.seqsrc = seqsrc
        self.opened = []

    def put(self, name, data):
        d = SimDisk(name, data, self.seqsrc)
        self.files[name] = d
        return d

    def open(self, name, mode='r', *a, **kw):
        if not isinstance(name, str) or not name.startswith(self.PREFIX):
            raise RuntimeError('isosim: open(%r) escaped the filesystem seam' % (name,))
        if 'w' in mode:
            d = self.files[name] = SimDisk(name, b'', self.seqsrc)
        else:
            if name not in self.files:
                raise FileNotFoundError(2, 'No such file or directory', name)
            d = self.files[name]
        f = SimFile(d, mode)
        self.opened.append(f)
        return f

    def stat(self, name):
        if isinstance(name, str) and name.startswith(self.PREFIX):
            if name not in self.files:
                raise FileNotFoundError(2, 'No such file or directory', name)
            return types.SimpleNamespace(st_size=len(self.files[name].data), st_mode=0o100644)
        return os.stat(name)


class OsShim:
    def __init__(self, fs):
        self._fs = fs

    def stat(self, name):
        return self._fs.stat(name)

    def __getattr__(self, n):
        return getattr(os, n)


FS_MODULES = ('pycdlib.pycdlib', 'pycdlib.inode')


def install_fs(fs):
    saved = []
    for mn in FS_MODULES:
        m = importlib.import_module(mn)
        saved.append((m, 'open', m.__dict__.get('open', None)))
        m.open = fs.open
    pm = importlib.import_module('pycdlib.pycdlib')
    saved.append((pm, 'os', pm.os))
    pm.os = OsShim(fs)
    return saved


def uninstall_fs(saved):
    for m, name, val in reversed(saved):
        if val is None:
            try:
                delattr(m, name)
            except AttributeError:
                pass
        else:
            setattr(m, name, val)


class Outcome:
    __slots__ = ('ok', 'exc', 'etype', 'msg', 'where')

    def __init__(self, ok, exc=None):
        self.ok = ok
        self.exc = exc
        self.etype = type(exc).__name__ if exc is not None else None
        self.msg = str(exc)[:160] if exc is not None else None
        self.where = innermost(exc) if exc is not None else None

    def sig(self):
        return (self.etype, self.where, stem(self.msg))


def stem(msg):
    if msg is None:
        return None
    out = []
    for ch in msg[:60]:
        out.append('#' if ch.isdigit() else ch)
    return ''.join(out)


def innermost(exc):
    """Innermost pycdlib function on the traceback of exc."""
    tb = exc.__traceback__
    name = None
    while tb is not None:
        fn = tb.tb_frame.f_code.co_filename
        if '/pycdlib/' in fn or '/tools/' in fn:
            name = os.path.basename(fn) + ':' + tb.tb_frame.f_code.co_name
        tb = tb.tb_next
    return name


def blob_data(b):
    return content.blob_bytes(b.id, b.length, [(o, bytes.fromhex(h)) for o, h in b.overlays])


class Driver:
    def __init__(self, world, cfg, model=None, use_fs=True):
        self.world = world
        self.cfg = cfg
        self.pm = importlib.import_module('pycdlib.pycdlib')
        self.pexc = importlib.import_module('pycdlib.pycdlibexception')
        self.model = model if model is not None else M.Model(cfg)
        self.iso = None
        self.fs = SimFS(world.next_seq)
        self.keep = []
        self.disks = []           # one per generation written
        self.history = []
        self.blocksize = 32768
        self.cur_fp = None
        self._fs_saved = install_fs(self.fs) if use_fs else None
        self.n_file = 0
        self.blob_files = {}      # blob id -> SimFile handed to add_fp (fault injection target)

    def close(self):
        if self._fs_saved is not None:
            uninstall_fs(self._fs_saved)
            self._fs_saved = None

    # -- lifecycle ------------------------------------------------------------
    def new(self, refused_first=None):
        """refused_first: keyword arguments of a new() call that must be refused, made on the same object before the real one."""
        self.iso = self.pm.PyCdlib(always_consistent=bool(self.cfg.get('always_consistent')))
        self.refused_new = None
        if refused_first is not None:
            kw = G.new_kwargs(self.cfg)
            kw.update(refused_first)
            try:
                self.iso.new(**kw)
                self.refused_new = Outcome(True)
                self.iso.close()
            except Exception as e:  # noqa
                self.refused_new = Outcome(False, e)
        self.iso.new(**G.new_kwargs(self.cfg))

    def write(self, blocksize=None, disk=None, recording=False, faults=None, progress_cb=None, iso=None):
        d = disk if disk is not None else SimDisk('gen%d' % len(self.disks), b'', self.world.next_seq)
        f = (RecordingFile if recording else SimFile)(d, 'wb', faults)
        kw = {}
        if progress_cb is not None:
            kw['progress_cb'] = progress_cb
        (iso or self.iso).write_fp(f, blocksize or self.blocksize, **kw)
        return d, f

    def open_disk(self, disk, mode='rb', faults=None, refused_first=None):
        iso = self.pm.PyCdlib(always_consistent=bool(self.cfg.get('always_consistent')))
        if refused_first is not None:
            # the same object is first handed a damaged copy of the image
            data = bytes(disk.data)
            cut = max(17 * 2048, int(len(data) * refused_first['cut']) // 2048 * 2048)
            bad = data[:cut] if refused_first.get('how') == 'truncate' else data[:cut] + b'\x00' * (len(data) - cut)
            try:
                iso.open_fp(SimFile(SimDisk('damaged-first', bad), 'rb'))
                self.refused_open = Outcome(True)
                iso.close()
            except Exception as e:   # noqa
                self.refused_open = Outcome(False, e)
        fp = SimFile(disk, mode, faults)
        iso.open_fp(fp)
        return iso, fp

    def decoy_of(self, disk):
        """A different image with the same names: the image on `disk` with every byte of file data inverted."""
        from . import alloc
        data = bytearray(disk.data)
        try:
            am = alloc.build(bytes(data), None)
            for (kind, start, ln) in am.objects:
                if kind == 'file':
                    data[start:start + ln] = bytes(b ^ 0xff for b in data[start:start + ln])
        except Exception:
            return None
        return SimDisk(disk.name + '.decoy', bytes(data), self.world.next_seq)

    def reopen_same_object(self, iso, disk, decoy=False):
        """close() and open the image on `disk` with the *same* PyCdlib object (documented as allowed).  With decoy=True the
        object first opens a different image that has the same names, every one of which is looked up in every namespace,
        and is closed again: whatever the object remembers across close() now answers with the decoy's records."""
        iso.close()
        if decoy:
            # first an older generation of this image, if there is one: it has the names that were removed since
            older = [self.disks[-2]] if len(self.disks) >= 2 else []
            for dd in older + [self.decoy_of(disk)]:
                if dd is None:
                    continue
                try:
                    iso.open_fp(SimFile(dd, 'rb'))
                except Exception:
                    continue
                try:
                    self.touch_all_names(iso)
                finally:
                    iso.close()
        fp = SimFile(disk, 'rb')
        iso.open_fp(fp)
        return iso, fp

    @staticmethod
    def touch_all_names(iso):
        """Look every name of every namespace up once (fills whatever lookup caches there are)."""
        for kw in ('iso_path', 'rr_path', 'joliet_path', 'udf_path'):
            if (kw == 'rr_path' and not iso.has_rock_ridge()) or (kw == 'joliet_path' and not iso.has_joliet()) or (kw == 'udf_path' and not iso.has_udf()):
                continue
            for dirpath, dirs, files in iso.walk(**{kw: '/'}):
                for nm in list(dirs) + list(files):
                    try:
                        iso.get_record(**{kw: (dirpath if dirpath != '/' else '') + '/' + nm})
                    except Exception:
                        pass

    def restart(self, via='fp', refused_first=None):
        """write_fp to a fresh disk, drop every in-memory object, open what the
        disk durably holds."""
        d, f = self.write()
        self.disks.append(d)
        old = self.iso
        self.world.new_generation()
        if via in ('reuse', 'reuse-decoy'):
            self.iso, self.cur_fp = self.reopen_same_object(old, d, decoy=(via == 'reuse-decoy'))
            return d
        if via == 'file':
            name = SimFS.PREFIX + 'gen%d.iso' % len(self.disks)
            self.fs.files[name] = d
            iso = self.pm.PyCdlib(always_consistent=bool(self.cfg.get('always_consistent')))
            iso.open(name)
            self.iso = iso
        else:
            self.iso, self.cur_fp = self.open_disk(d, refused_first=refused_first)
        try:
            old.close()
        except Exception:
            pass
        return d

    # -- ops --------------------------------------------------------------
    def apply(self, op):
        """Apply one op to the implementation.  Returns Outcome; the model is
        advanced only when the implementation accepted."""
        self.world.clock.take_readings()
        try:
            getattr(self, 'do_' + op['op'])(op)
            out = Outcome(True)
        except Exception as e:  # noqa
            out = Outcome(False, e)
        if out.ok:
            self.model.apply(op)
        self.history.append((op, out))
        return out

    def apply_doomed(self, op):
        """Apply a call that must be refused; the model is never advanced."""
        self.world.clock.take_readings()
        injected = None
        flt = op.get('fault')
        if flt and flt.get('target') == 'blobfp':
            from .disk import Fault
            f = self.blob_files.get(flt['blob'])
            if f is not None:
                injected = (f, Fault.from_json(flt['fault']))
                f.counts = {'read': 0, 'write': 0, 'seek': 0}
                f.faults.append(injected[1])
        try:
            getattr(self, 'do_' + op['op'])(op)
            out = Outcome(True)
        except Exception as e:  # noqa
            out = Outcome(False, e)
        finally:
            if injected is not None:
                injected[0].faults.remove(injected[1])
                self.fault_fired = injected[1].fired
        self.history.append((op, out))
        return out

    def do_new_again(self, op):
        self.iso.new()

    def do_write_fault(self, op):
        from .disk import Fault
        faults = [Fault.from_json(op['fault'])] if op.get('fault') else None
        d = SimDisk('faulty', b'', self.world.next_seq)
        f = SimFile(d, 'wb', faults)
        kw = {}
        if op.get('progress_raise_at'):
            state = {'n': 0}

            def cb(done, total, opaque=None):
                state['n'] += 1
                if state['n'] == op['progress_raise_at']:
                    raise RuntimeError('simulated failure inside progress_cb')
            kw['progress_cb'] = cb
        self.iso.write_fp(f, self.blocksize, **kw)

    def _blob_fp(self, op):
        b = M.Blob(op['blob'], op['len'], op.get('overlays') or ())
        data = blob_data(b)
        if op.get('route') == 'file':
            self.n_file += 1
            name = SimFS.PREFIX + 'src%d' % op['blob']
            self.fs.put(name, data)
            return name
        if op.get('tail'):
            data = bytes(data) + b'\xa5' * op['tail']       # beyond the length given to add_fp: not part of the file
        d = SimDisk('blob%d' % op['blob'], data, self.world.next_seq)
        d.keep_log = False
        f = SimFile(d, 'rb')
        self.keep.append(f)
        self.blob_files[op['blob']] = f
        return f

    def do_add_fp(self, op):
        src = self._blob_fp(op)
        kw = {}
        if op.get('iso'):
            kw['iso_path'] = op['iso']
        if op.get('rr'):
            kw['rr_name'] = op['rr']
        if op.get('joliet'):
            kw['joliet_path'] = op['joliet']
        if op.get('udf'):
            kw['udf_path'] = op['udf']
        if op.get('mode') is not None:
            kw['file_mode'] = op['mode']
        if isinstance(src, str):
            self.iso.add_file(src, **kw)
        else:
            self.iso.add_fp(src, op['len'], **kw)

    def do_add_dir(self, op):
        kw = {}
        if op.get('iso'):
            kw['iso_path'] = op['iso']
        if op.get('rr'):
            kw['rr_name'] = op['rr']
        if op.get('joliet'):
            kw['joliet_path'] = op['joliet']
        if op.get('udf'):
            kw['udf_path'] = op['udf']
        if op.get('mode') is not None:
            kw['file_mode'] = op['mode']
        if list(kw) == ['joliet_path'] and zlib.crc32(kw['joliet_path'].encode('utf-8')) & 1:
            # a fixed half of the Joliet-only calls goes through the deprecated alias
            self.iso.add_joliet_directory(kw['joliet_path'])
            return
        self.iso.add_directory(**kw)

    @staticmethod
    def _pathkw(ns, path):
        return {{'iso': 'iso_path', 'joliet': 'joliet_path', 'udf': 'udf_path', 'rr': 'rr_path'}[ns]: path}

    def do_rm_file(self, op):
        self.iso.rm_file(**self._pathkw(op['ns'], op['path']))

    def do_rm_dir(self, op):
        kw = {}
        for ns in M.NSS:
            if op.get(ns):
                kw.update(self._pathkw(ns, op[ns]))
        if list(kw) == ['joliet_path'] and zlib.crc32(kw['joliet_path'].encode('utf-8')) & 1:
            self.iso.rm_joliet_directory(kw['joliet_path'])
            return
        self.iso.rm_directory(**kw)

    def do_add_link(self, op):
        kw = {}
        if op['old_ns'] == 'bootcat':
            kw['boot_catalog_old'] = True
        else:
            kw[{'iso': 'iso_old_path', 'joliet': 'joliet_old_path', 'udf': 'udf_old_path'}[op['old_ns']]] = op['old']
        kw[{'iso': 'iso_new_path', 'joliet': 'joliet_new_path', 'udf': 'udf_new_path'}[op['new_ns']]] = op['new']
        if op.get('rr'):
            kw['rr_name'] = op['rr']
        self.iso.add_hard_link(**kw)

    def do_rm_link(self, op):
        self.iso.rm_hard_link(**self._pathkw(op['ns'], op['path']))

    def do_add_symlink(self, op):
        kw = {}
        if op.get('iso'):
            kw['symlink_path'] = op['iso']
        if op.get('rr'):
            kw['rr_symlink_name'] = op['rr']
            kw['rr_path'] = op['target']
        if op.get('joliet'):
            kw['joliet_path'] = op['joliet']
        if op.get('udf'):
            kw['udf_symlink_path'] = op['udf']
            kw['udf_target'] = op['udf_target']
        self.iso.add_symlink(**kw)

    def do_hide(self, op):
        f = self.iso.set_hidden if op['on'] else self.iso.clear_hidden
        if op.get('via') == 'rr':
            f(rr_path=op['rrpath'])
        else:
            f(**self._pathkw(op['ns'], op['path']))

    def do_add_eltorito(self, op):
        kw = {'bootfile_path': op['boot']}
        for k_op, k_api in (('cat', 'bootcatfile'), ('rr_cat', 'rr_bootcatname'), ('joliet_cat', 'joliet_bootcatfile'),
                            ('udf_cat', 'udf_bootcatfile'), ('load_size', 'boot_load_size'), ('platform', 'platform_id'),
                            ('bit', 'boot_info_table'), ('efi', 'efi'), ('media', 'media_name'), ('bootable', 'bootable'),
                            ('load_seg', 'boot_load_seg')):
            if op.get(k_op) is not None:
                kw[k_api] = op[k_op]
        self.iso.add_eltorito(**kw)

    def do_rm_eltorito(self, op):
        self.iso.rm_eltorito()

    def do_add_isohybrid(self, op):
        kw = {}
        for k_op, k_api in (('part_entry', 'part_entry'), ('mbr_id', 'mbr_id'), ('part_offset', 'part_offset'),
                            ('sectors', 'geometry_sectors'), ('heads', 'geometry_heads'), ('part_type', 'part_type'),
                            ('mac', 'mac'), ('efi', 'efi')):
            if op.get(k_op) is not None:
                kw[k_api] = op[k_op]
        self.iso.add_isohybrid(**kw)

    def do_rm_isohybrid(self, op):
        self.iso.rm_isohybrid()

    def do_dup_pvd(self, op):
        self.iso.duplicate_pvd()

    def do_set_relocated_name(self, op):
        self.iso.set_relocated_name(op['name'], op['rr'])

    def do_restart(self, op):
        self.restart(op.get('via', 'fp'))

    def do_force(self, op):
        self.iso.force_consistency()
