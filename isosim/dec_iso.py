"""Independent ECMA-119 reader (also Joliet SVDs with UCS-2BE names and the
ISO9660:1999 enhanced descriptor).  Written from the standard (DESIGN.md
Appendix A); shares no code with pycdlib.  Fails closed: every structural
anomaly becomes a typed Anomaly(rule, offset, detail); emits a field map
(offset, length, meaning) for every field it follows."""
import struct

SECTOR = 2048


class Anomaly:
    __slots__ = ('rule', 'offset', 'detail')

    def __init__(self, rule, offset, detail=''):
        self.rule = rule
        self.offset = offset
        self.detail = detail

    def __repr__(self):
        return 'Anomaly(%s @%d %s)' % (self.rule, self.offset, self.detail)


class Reader:
    """Bounded reader over the raw bytes."""

    def __init__(self, data):
        self.data = data
        self.n = len(data)

    def get(self, off, ln):
        if off < 0 or ln < 0 or off + ln > self.n:
            return None
        return self.data[off:off + ln]


def both32(b, off):
    le = struct.unpack_from('<I', b, off)[0]
    be = struct.unpack_from('>I', b, off + 4)[0]
    return le, be


def both16(b, off):
    le = struct.unpack_from('<H', b, off)[0]
    be = struct.unpack_from('>H', b, off + 2)[0]
    return le, be


class DirRec:
    __slots__ = ('off', 'length', 'ext_attr_len', 'extent', 'size', 'date', 'flags', 'unit', 'gap', 'seq',
                 'ident', 'su', 'su_off', 'name', 'parent', 'children', 'parts', 'path', 'xa')

    def __init__(self):
        self.children = None
        self.parts = None
        self.parent = None
        self.path = None
        self.xa = None

    @property
    def is_dir(self):
        return bool(self.flags & 2)

    @property
    def hidden(self):
        return bool(self.flags & 1)


class VolDesc:
    def __init__(self, sector, vtype, raw):
        self.sector = sector
        self.type = vtype
        self.raw = raw
        self.kind = None          # 'pvd' | 'joliet' | 'enhanced' | 'svd' | 'boot' | 'term' | 'other'
        self.joliet_level = None
        self.space_size = None
        self.block_size = None
        self.pt_size = None
        self.pt_l = None
        self.pt_m = None
        self.root = None
        self.tree = None


class Tree:
    def __init__(self, vd, encoding):
        self.vd = vd
        self.encoding = encoding
        self.root = None
        self.dirs = []            # DirRec of directories in BFS order (root first)
        self.entries = {}         # path -> DirRec (first part for multi-extent)
        self.records = []         # every non-dot DirRec
        self.dir_extents = {}     # extent -> DirRec (directory)


class IsoImage:
    def __init__(self, data):
        self.r = Reader(data)
        self.data = data
        self.anoms = []
        self.fields = []          # (offset, length, meaning)
        self.vds = []
        self.pvds = []
        self.svds = []
        self.boots = []
        self.term_sector = None
        self.trees = {}
        self.objects = []         # (kind, start_byte, length, owner)
        self.cur_tree = None

    def anom(self, rule, off, detail=''):
        if self.cur_tree not in (None, 'iso'):
            rule = rule + '@' + self.cur_tree
        self.anoms.append(Anomaly(rule, off, detail))

    def field(self, off, ln, meaning):
        self.fields.append((off, ln, meaning))

    # ------------------------------------------------------------------
    def decode(self, want_trees=True):
        self._vds()
        if want_trees and self.pvds:
            pvd = self.pvds[0]
            self.trees['iso'] = self._tree(pvd, 'iso')
            for svd in self.svds:
                if svd.kind == 'joliet' and 'joliet' not in self.trees:
                    self.trees['joliet'] = self._tree(svd, 'joliet')
                elif svd.kind == 'enhanced' and 'enhanced' not in self.trees:
                    self.trees['enhanced'] = self._tree(svd, 'enhanced')
        return self

    # -- volume descriptors ----------------------------------------------------
    def _vds(self):
        sec = 16
        seen_term = False
        while True:
            raw = self.r.get(sec * SECTOR, SECTOR)
            if raw is None:
                self.anom('ecma119.6.7.1/vd-set-unterminated', sec * SECTOR, 'ran off the image before a terminator')
                break
            vtype = raw[0]
            if raw[1:6] != b'CD001':
                self.anom('ecma119.8.1/vd-standard-id', sec * SECTOR + 1, repr(raw[1:6]))
                break
            vd = VolDesc(sec, vtype, raw)
            base = sec * SECTOR
            self.field(base, 1, 'vd.type')
            self.field(base + 1, 5, 'vd.id')
            self.field(base + 6, 1, 'vd.version')
            self.vds.append(vd)
            self.objects.append(('vd', base, SECTOR, 'vd%d' % sec))
            if vtype == 255:
                vd.kind = 'term'
                if raw[6] != 1:
                    self.anom('ecma119.8.3/term-version', base + 6, str(raw[6]))
                if any(raw[7:]):
                    self.anom('ecma119.8.3/term-nonzero', base + 7)
                self.term_sector = sec
                seen_term = True
                break
            if vtype == 0:
                vd.kind = 'boot'
                self.boots.append(vd)
                if raw[6] != 1:
                    self.anom('ecma119.8.2/boot-version', base + 6, str(raw[6]))
            elif vtype in (1, 2):
                self._pvd_fields(vd)
                if vtype == 1:
                    vd.kind = 'pvd'
                    self.pvds.append(vd)
                    if raw[6] != 1:
                        self.anom('ecma119.8.4/pvd-version', base + 6, str(raw[6]))
                    if raw[7] != 0:
                        self.anom('ecma119.8.4/pvd-unused', base + 7)
                else:
                    esc = raw[88:120]
                    if raw[6] == 2:
                        vd.kind = 'enhanced'
                    elif esc[:3] in (b'%/@', b'%/C', b'%/E'):
                        vd.kind = 'joliet'
                        vd.joliet_level = {b'%/@': 1, b'%/C': 2, b'%/E': 3}[esc[:3]]
                        if any(esc[3:]):
                            self.anom('joliet/escape-trailing', base + 91)
                    else:
                        vd.kind = 'svd'
                    self.svds.append(vd)
            else:
                vd.kind = 'other'
            sec += 1
            if sec > 16 + 64:
                self.anom('ecma119.6.7.1/vd-set-too-long', sec * SECTOR)
                break
        if not self.pvds:
            self.anom('ecma119.6.7.1/no-pvd', 16 * SECTOR)
        elif self.vds[0].kind != 'pvd':
            self.anom('ecma119.6.7.1/first-vd-not-pvd', 16 * SECTOR)
        if not seen_term:
            self.anom('ecma119.6.7.1/no-terminator', 16 * SECTOR)
        # duplicate PVDs must be identical
        for p in self.pvds[1:]:
            if p.raw != self.pvds[0].raw:
                diff = next(i for i in range(SECTOR) if p.raw[i] != self.pvds[0].raw[i])
                self.anom('ecma119.6.7.1/duplicate-pvd-differs.' + pvd_field_at(diff), p.sector * SECTOR + diff, 'first differing byte %d' % diff)

    def _pvd_fields(self, vd):
        raw = vd.raw
        base = vd.sector * SECTOR
        le, be = both32(raw, 80)
        self.field(base + 80, 8, 'vd.space_size')
        if le != be:
            self.anom('ecma119.7.3.3/both-endian.space_size', base + 80, '%d != %d' % (le, be))
        vd.space_size = le
        for off, nm in ((120, 'set_size'), (124, 'seqnum'), (128, 'block_size')):
            l16, b16 = both16(raw, off)
            self.field(base + off, 4, 'vd.' + nm)
            if l16 != b16:
                self.anom('ecma119.7.2.3/both-endian.' + nm, base + off, '%d != %d' % (l16, b16))
            setattr(vd, nm, l16)
        if vd.block_size != SECTOR:
            self.anom('ecma119.8.4.12/block-size', base + 128, str(vd.block_size))
        le, be = both32(raw, 132)
        self.field(base + 132, 8, 'vd.path_table_size')
        if le != be:
            self.anom('ecma119.7.3.3/both-endian.path_table_size', base + 132, '%d != %d' % (le, be))
        vd.pt_size = le
        vd.pt_l = struct.unpack_from('<I', raw, 140)[0]
        vd.pt_l_opt = struct.unpack_from('<I', raw, 144)[0]
        vd.pt_m = struct.unpack_from('>I', raw, 148)[0]
        vd.pt_m_opt = struct.unpack_from('>I', raw, 152)[0]
        self.field(base + 140, 4, 'vd.path_table_l')
        self.field(base + 148, 4, 'vd.path_table_m')
        self.field(base + 156, 34, 'vd.root_record')
        for off, nm in ((813, 'creation'), (830, 'modification'), (847, 'expiration'), (864, 'effective')):
            self.field(base + off, 17, 'vd.date.' + nm)
        vd.dates = {nm: raw[off:off + 17] for off, nm in ((813, 'creation'), (830, 'modification'), (847, 'expiration'), (864, 'effective'))}
        if raw[881] not in (1, 2):
            self.anom('ecma119.8.4.31/file-structure-version', base + 881, str(raw[881]))
        vd.xa = raw[1024:1032] == b'CD-XA001'
        rec = self._parse_record(raw, 156, base, None, in_vd=True)
        vd.root = rec
        if rec is None:
            self.anom('ecma119.8.4.18/root-record', base + 156)
        else:
            if rec.length != 34 or rec.ident != b'\x00' or not rec.is_dir:
                self.anom('ecma119.8.4.18/root-record-shape', base + 156, 'len=%d ident=%r flags=%#x' % (rec.length, rec.ident, rec.flags))

    # -- directory records -------------------------------------------------------
    def _parse_record(self, buf, off, base, parent, in_vd=False):
        """Parse the record at buf[off:]; base = absolute offset of buf[0]."""
        if off >= len(buf):
            return None
        ln = buf[off]
        if ln < 34 or off + ln > len(buf):
            return None
        b = buf[off:off + ln]
        r = DirRec()
        r.off = base + off
        r.length = ln
        r.ext_attr_len = b[1]
        el, eb = both32(b, 2)
        sl, sb = both32(b, 10)
        if el != eb:
            self.anom('ecma119.7.3.3/both-endian.extent', r.off + 2, '%d != %d' % (el, eb))
        if sl != sb:
            self.anom('ecma119.7.3.3/both-endian.data_length', r.off + 10, '%d != %d' % (sl, sb))
        r.extent = el
        r.size = sl
        r.date = b[18:25]
        r.flags = b[25]
        r.unit = b[26]
        r.gap = b[27]
        q1, q2 = both16(b, 28)
        if q1 != q2:
            self.anom('ecma119.7.2.3/both-endian.seqnum', r.off + 28, '%d != %d' % (q1, q2))
        r.seq = q1
        lfi = b[32]
        if 33 + lfi > ln:
            self.anom('ecma119.9.1.10/len_fi-beyond-record', r.off + 32, 'len_fi=%d len_dr=%d' % (lfi, ln))
            return None
        r.ident = b[33:33 + lfi]
        su_off = 33 + lfi
        if lfi % 2 == 0:
            if su_off < ln and b[su_off] != 0:
                self.anom('ecma119.9.1.12/pad-byte', r.off + su_off, str(b[su_off]))
            su_off += 1
        if su_off > ln:
            # an even len_fi needs its pad byte inside the record
            self.anom('ecma119.9.1.12/pad-missing', r.off + 32, 'len_fi=%d len_dr=%d' % (lfi, ln))
            su_off = ln
        if ln % 2:
            self.anom('ecma119.9.1.1/odd-record-length', r.off, str(ln))
        r.su = b[su_off:]
        r.su_off = r.off + su_off
        r.parent = parent
        if not in_vd:
            self.field(r.off, 1, 'dr.length')
            self.field(r.off + 2, 8, 'dr.extent')
            self.field(r.off + 10, 8, 'dr.data_length')
            self.field(r.off + 18, 7, 'dr.date')
            self.field(r.off + 25, 1, 'dr.flags')
            self.field(r.off + 32, 1, 'dr.len_fi')
        return r

    def _decode_name(self, ident, encoding, off):
        if ident in (b'\x00', b'\x01'):
            return ident.decode('latin-1')
        if encoding == 'joliet' and len(ident) > 128 + 4:
            # Joliet: at most 64 UCS-2 units (128 bytes), plus ';1' where a version is recorded
            self.anom('joliet/name-longer-than-64-units', off, '%d bytes' % len(ident))
        try:
            if encoding == 'joliet':
                return ident.decode('utf-16_be')
            return ident.decode('utf-8')
        except UnicodeDecodeError:
            if encoding == 'joliet':
                self.anom('joliet/name-not-ucs2', off, ident.hex())
            return ident.decode('latin-1')

    def _tree(self, vd, encoding):
        t = Tree(vd, encoding)
        self.cur_tree = encoding
        root = vd.root
        if root is None:
            return t
        root.path = '/'
        root.name = ''
        t.root = root
        queue = [root]
        seen_extents = set()
        while queue:
            d = queue.pop(0)
            t.dirs.append(d)
            d.children = []
            if d.extent in seen_extents:
                self.anom('ecma119.6.8/directory-cycle', d.off, 'extent %d' % d.extent)
                continue
            seen_extents.add(d.extent)
            t.dir_extents[d.extent] = d
            if len(t.dirs) > 100000:
                self.anom('decoder/too-many-directories', d.off)
                break
            self._read_dir(t, vd, d, encoding, queue)
        self._path_tables(t, vd, encoding)
        self.cur_tree = None
        return t

    def _read_dir(self, t, vd, d, encoding, queue):
        start = d.extent * SECTOR
        if d.size % SECTOR:
            self.anom('ecma119.6.8.1.3/dir-length-not-sector-multiple', d.off + 10, str(d.size))
        buf = self.r.get(start, d.size)
        if buf is None:
            self.anom('ecma119.6.8/dir-extent-out-of-image', d.off + 2, 'extent=%d size=%d' % (d.extent, d.size))
            return
        self.objects.append(('dir.' + encoding, start, d.size, d.path))
        off = 0
        idx = 0
        prev = None
        seen = {}
        while off < len(buf):
            ln = buf[off]
            if ln == 0:
                # rest of this sector must be zero
                end = (off // SECTOR + 1) * SECTOR
                if any(buf[off:end]):
                    self.anom('ecma119.6.8.1.1/nonzero-fill', start + off)
                off = end
                continue
            if off // SECTOR != (off + ln - 1) // SECTOR:
                self.anom('ecma119.6.8.1.1/record-crosses-sector', start + off, 'len=%d' % ln)
                break
            rec = self._parse_record(buf, off, start, d)
            if rec is None:
                self.anom('ecma119.9.1/bad-record', start + off, 'len=%d' % ln)
                break
            off += ln
            if idx == 0:
                if rec.ident != b'\x00' or not rec.is_dir:
                    self.anom('ecma119.6.8.2.2/first-record-not-self', rec.off, repr(rec.ident))
                else:
                    if rec.extent != d.extent:
                        self.anom('ecma119.6.8.2.2/dot-extent', rec.off + 2, '%d != %d' % (rec.extent, d.extent))
                    if rec.size != d.size:
                        self.anom('ecma119.6.8.2.2/dot-length', rec.off + 10, '%d != %d' % (rec.size, d.size))
                d.children.append(rec)
                rec.name = '.'
                d_dot = rec
            elif idx == 1:
                if rec.ident != b'\x01' or not rec.is_dir:
                    self.anom('ecma119.6.8.2.2/second-record-not-parent', rec.off, repr(rec.ident))
                else:
                    par = d.parent if d.parent is not None else d
                    if d is t.root:
                        par = d
                    if rec.extent != par.extent:
                        self.anom('ecma119.6.8.2.2/dotdot-extent', rec.off + 2, '%d != %d' % (rec.extent, par.extent))
                    if rec.size != par.size:
                        self.anom('ecma119.6.8.2.2/dotdot-length', rec.off + 10, '%d != %d' % (rec.size, par.size))
                d.children.append(rec)
                rec.name = '..'
            else:
                if rec.ident in (b'\x00', b'\x01'):
                    self.anom('ecma119.6.8.2.2/extra-dot-record', rec.off)
                rec.name = self._decode_name(rec.ident, encoding, rec.off + 33)
                rec.path = (d.path if d.path != '/' else '') + '/' + rec.name
                d.children.append(rec)
                t.records.append(rec)
                # ordering
                if prev is not None:
                    c = cmp_93(prev, rec, encoding)
                    if c > 0:
                        self.anom('ecma119.9.3/order.' + order_kind(prev, rec, encoding), rec.off,
                                  '%r before %r' % (prev.ident, rec.ident))
                # duplicates
                key = rec.ident
                if key in seen:
                    first = seen[key]
                    last = first.parts[-1] if first.parts else first
                    if (prev is last) and (last.flags & 0x80) and not rec.is_dir and not first.is_dir:
                        if first.parts is None:
                            first.parts = [first]
                        first.parts.append(rec)
                    else:
                        self.anom('ecma119.9.3/duplicate-identifier', rec.off, repr(rec.ident))
                else:
                    seen[key] = rec
                    t.entries[rec.path] = rec
                    if rec.is_dir:
                        rec.parent = d
                        if not self._is_relocation_placeholder(rec):
                            queue.append(rec)
                prev = rec
            idx += 1
        # a multi-extent chain must end with a record without the flag
        for rec in seen.values():
            last = rec.parts[-1] if rec.parts else rec
            if last.flags & 0x80:
                self.anom('ecma119.9.1.6/multi-extent-unterminated', last.off + 25)
        if idx < 2:
            self.anom('ecma119.6.8.2.2/missing-dot-records', start)

    @staticmethod
    def _is_relocation_placeholder(rec):
        return False

    # -- path tables ---------------------------------------------------------------
    def _parse_pt(self, loc, size, big, which):
        out = []
        buf = self.r.get(loc * SECTOR, size)
        if buf is None:
            self.anom('ecma119.6.9/path-table-out-of-image.' + which, loc * SECTOR)
            return None
        off = 0
        while off < size:
            ldi = buf[off]
            if ldi == 0:
                self.anom('ecma119.9.4/path-table-zero-len_di.' + which, loc * SECTOR + off)
                return None
            rl = 8 + ldi + (ldi % 2)
            if off + rl > size:
                self.anom('ecma119.9.4/path-table-record-beyond-size.' + which, loc * SECTOR + off)
                return None
            ext = struct.unpack_from('>I' if big else '<I', buf, off + 2)[0]
            par = struct.unpack_from('>H' if big else '<H', buf, off + 6)[0]
            ident = buf[off + 8:off + 8 + ldi]
            if ldi % 2 and buf[off + 8 + ldi] != 0:
                self.anom('ecma119.9.4.6/path-table-pad.' + which, loc * SECTOR + off + 8 + ldi)
            self.field(loc * SECTOR + off, 1, 'pt.len_di')
            self.field(loc * SECTOR + off + 2, 4, 'pt.extent')
            self.field(loc * SECTOR + off + 6, 2, 'pt.parent')
            out.append((ext, par, ident, loc * SECTOR + off))
            off += rl
        return out

    def _path_tables(self, t, vd, encoding):
        base = vd.sector * SECTOR
        ptl = self._parse_pt(vd.pt_l, vd.pt_size, False, 'L')
        ptm = self._parse_pt(vd.pt_m, vd.pt_size, True, 'M')
        nsec = (vd.pt_size + SECTOR - 1) // SECTOR
        self.objects.append(('pt_l.' + encoding, vd.pt_l * SECTOR, nsec * SECTOR, encoding))
        self.objects.append(('pt_m.' + encoding, vd.pt_m * SECTOR, nsec * SECTOR, encoding))
        t.path_table = ptl
        if ptl is None or ptm is None:
            return
        if [(e, p, i) for e, p, i, _ in ptl] != [(e, p, i) for e, p, i, _ in ptm]:
            self.anom('ecma119.6.9/path-tables-disagree', base + 140)
        # expected: BFS over directories: order by level, then parent number, then identifier
        dirs = [d for d in t.dirs]
        # assign numbers in the standard order
        expected = []
        number = {}
        level = [t.root]
        number[id(t.root)] = 1
        expected.append((t.root.extent, 1, b'\x00'))
        n = 1
        while level:
            nxt = []
            for d in level:
                subs = [c for c in (d.children or [])[2:] if c.is_dir and c.children is not None]
                subs.sort(key=lambda c: pt_key(c.ident, encoding))
                for c in subs:
                    n += 1
                    number[id(c)] = n
                    expected.append((c.extent, number[id(d)], c.ident))
                    nxt.append(c)
            level = nxt
        got = [(e, p, i) for e, p, i, _ in ptl]
        if got != expected:
            if sorted(got) == sorted(expected):
                self.anom('ecma119.6.9.1/path-table-order', vd.pt_l * SECTOR, 'same records, different order')
            elif sorted((e, i) for e, p, i in got) == sorted((e, i) for e, p, i in expected):
                self.anom('ecma119.6.9.1/path-table-parent-numbers', vd.pt_l * SECTOR)
            else:
                self.anom('ecma119.6.9.1/path-table-content', vd.pt_l * SECTOR,
                          'table has %d records, hierarchy has %d directories' % (len(got), len(expected)))
        if ptl and (ptl[0][2] != b'\x00' or ptl[0][1] != 1):
            self.anom('ecma119.6.9.1/path-table-root', vd.pt_l * SECTOR)


PVD_LAYOUT = ((0, 'type'), (1, 'id'), (6, 'version'), (7, 'flags'), (8, 'system_id'), (40, 'volume_id'), (72, 'unused'),
              (80, 'space_size'), (88, 'escape'), (120, 'set_size'), (124, 'seqnum'), (128, 'block_size'),
              (132, 'path_table_size'), (140, 'path_table_l'), (144, 'path_table_l_opt'), (148, 'path_table_m'),
              (152, 'path_table_m_opt'), (156, 'root_record'), (190, 'volume_set_id'), (318, 'publisher'),
              (446, 'preparer'), (574, 'application'), (702, 'copyright'), (739, 'abstract'), (776, 'bibliographic'),
              (813, 'date.creation'), (830, 'date.modification'), (847, 'date.expiration'), (864, 'date.effective'),
              (881, 'file_structure_version'), (882, 'reserved'), (883, 'application_use'), (1395, 'reserved2'))


def pvd_field_at(off):
    name = 'type'
    for o, n in PVD_LAYOUT:
        if o <= off:
            name = n
    return name


def split_ident(ident, encoding):
    """(name, ext, version) as sequences of code units."""
    if encoding == 'joliet':
        units = [ident[i:i + 2] for i in range(0, len(ident) - 1, 2)]
        semi, dot = b'\x00;', b'\x00.'
    else:
        units = [ident[i:i + 1] for i in range(len(ident))]
        semi, dot = b';', b'.'
    ver = []
    if semi in units:
        i = len(units) - 1 - units[::-1].index(semi)
        ver = units[i + 1:]
        units = units[:i]
    if dot in units:
        i = len(units) - 1 - units[::-1].index(dot)
        return units[:i], units[i + 1:], ver
    return units, [], ver


def _padcmp(a, b, pad):
    n = max(len(a), len(b))
    a = a + [pad] * (n - len(a))
    b = b + [pad] * (n - len(b))
    return (a > b) - (a < b)


def cmp_93(r1, r2, encoding):
    """ECMA-119 9.3 ordering of two records of one directory: <0, 0, >0."""
    pad = b'\x00 ' if encoding == 'joliet' else b' '
    # directory identifiers have no extension/version structure
    a = split_ident(r1.ident, encoding) if not r1.is_dir else (split_units(r1.ident, encoding), [], [])
    b = split_ident(r2.ident, encoding) if not r2.is_dir else (split_units(r2.ident, encoding), [], [])
    c = _padcmp(a[0], b[0], pad)
    if c:
        return c
    c = _padcmp(a[1], b[1], pad)
    if c:
        return c
    if r1.is_dir != r2.is_dir:
        return 0    # a directory identifier has no version: 9.3 does not order it against a file of the same name
    # an identifier without SEPARATOR 2 (not a conforming File Identifier, but one the library lets through) has no version
    # for 9.3 to order by
    semi = b'\x00;' if encoding == 'joliet' else b';'
    if semi not in split_units(r1.ident, encoding) or semi not in split_units(r2.ident, encoding):
        return 0
    # version: descending, padded on the left with '0'
    va = int(b''.join(a[2]).replace(b'\x00', b'') or b'0') if _digits(a[2]) else 0
    vb = int(b''.join(b[2]).replace(b'\x00', b'') or b'0') if _digits(b[2]) else 0
    if va != vb:
        return -1 if va > vb else 1
    # associated file first
    aa, ab = bool(r1.flags & 4), bool(r2.flags & 4)
    if aa != ab:
        return -1 if aa else 1
    return 0


def _digits(units):
    s = b''.join(units).replace(b'\x00', b'')
    return s.isdigit()


def split_units(ident, encoding):
    if encoding == 'joliet':
        return [ident[i:i + 2] for i in range(0, len(ident) - 1, 2)]
    return [ident[i:i + 1] for i in range(len(ident))]


def order_kind(prev, rec, encoding):
    """Sub-classify an ordering anomaly so that distinct defects have distinct signatures."""
    a = split_ident(prev.ident, encoding) if not prev.is_dir else (split_units(prev.ident, encoding), [], [])
    b = split_ident(rec.ident, encoding) if not rec.is_dir else (split_units(rec.ident, encoding), [], [])
    raw_ok = prev.ident <= rec.ident
    if a[0] != b[0]:
        shorter, longer = (a[0], b[0]) if len(a[0]) < len(b[0]) else (b[0], a[0])
        if longer[:len(shorter)] == shorter and raw_ok:
            return 'name-prefix'
        return 'name' if not raw_ok else 'name-raw-sorted'
    if a[1] != b[1]:
        shorter, longer = (a[1], b[1]) if len(a[1]) < len(b[1]) else (b[1], a[1])
        if longer[:len(shorter)] == shorter and raw_ok:
            return 'ext-prefix'
        return 'ext' if not raw_ok else 'ext-raw-sorted'
    if a[2] != b[2]:
        return 'version'
    return 'other'


def pt_key(ident, encoding):
    """Sort key for 6.9.1: identifiers compared as if padded with SPACE."""
    units = split_units(ident, encoding)
    pad = b'\x00 ' if encoding == 'joliet' else b' '
    return _PadKey(units, pad)


class _PadKey:
    __slots__ = ('u', 'pad')

    def __init__(self, u, pad):
        self.u = u
        self.pad = pad

    def __lt__(self, other):
        return _padcmp(self.u, other.u, self.pad) < 0


def decode(data, want_trees=True):
    return IsoImage(data).decode(want_trees)
