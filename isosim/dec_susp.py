"""Independent SUSP 1.12 / RRIP 1.09-1.12 reader, written from the standards
(DESIGN.md Appendix A).  Works on the records produced by dec_iso."""
import struct

SECTOR = 2048
KNOWN = {b'SP', b'CE', b'ER', b'ES', b'PD', b'ST', b'RR', b'PX', b'PN', b'SL', b'NM', b'CL', b'PL', b'RE', b'TF', b'SF', b'AL'}
ER_IDS = (b'RRIP_1991A', b'IEEE_P1282', b'IEEE_1282')


class RRInfo:
    __slots__ = ('name', 'name_flags', 'mode', 'nlink', 'uid', 'gid', 'serial', 'px_len', 'target', 'sl_raw', 'cl', 'pl', 're',
                 'tf', 'tf_flags', 'entries', 'ce_areas', 'sp', 'er', 'es', 'rr_mask', 'has_px', 'has_nm', 'is_symlink', 'pn')

    def __init__(self):
        self.name = None
        self.name_flags = 0
        self.mode = None
        self.nlink = None
        self.uid = self.gid = self.serial = None
        self.px_len = None
        self.target = None
        self.sl_raw = []
        self.cl = self.pl = None
        self.re = False
        self.tf = {}
        self.tf_flags = None
        self.entries = []         # (sig, abs offset, length, where)
        self.ce_areas = []        # (block, offset, length)
        self.sp = None
        self.er = None
        self.es = []
        self.rr_mask = None
        self.has_px = self.has_nm = False
        self.is_symlink = False
        self.pn = None


class SuspDecoder:
    def __init__(self, img, data):
        self.img = img            # dec_iso.IsoImage (for anomalies and fields)
        self.data = data
        self.skip = 0
        self.has_susp = False
        self.er_id = None
        self.all_ce = []          # (block, offset, length, owner record offset)
        self.info = {}            # id(rec) -> RRInfo

    def anom(self, rule, off, detail=''):
        self.img.anom(rule, off, detail)

    # -- entry point -------------------------------------------------------
    def decode_tree(self, tree):
        root = tree.root
        if root is None or not root.children:
            return
        xa_skip = 14 if tree.vd.xa else 0
        dot = root.children[0]
        su = dot.su
        # SP must be the first entry of the root '.' record (after the XA prefix if any)
        pos = None
        if su[:2] == b'SP':
            pos = 0
        elif xa_skip and su[xa_skip:xa_skip + 2] == b'SP':
            pos = xa_skip
        if pos is None:
            return
        if len(su) < pos + 7 or su[pos + 2] != 7 or su[pos + 3] != 1 or su[pos + 4:pos + 6] != b'\xbe\xef':
            self.anom('susp.5.3/sp-malformed', dot.su_off + pos, su[pos:pos + 7].hex())
            return
        self.has_susp = True
        self.skip = su[pos + 6]
        if self.skip != xa_skip:
            self.anom('susp.5.3/sp-skip', dot.su_off + pos + 6, 'skip=%d xa=%d' % (self.skip, xa_skip))
        for d in tree.dirs:
            for i, rec in enumerate(d.children or []):
                first_skip = pos if (d is root and i == 0) else self.skip
                self.info[id(rec)] = self._record(rec, first_skip, d is root and i == 0)
        self._check_ce_overlaps()

    # -- one record ----------------------------------------------------------------
    def _record(self, rec, skip, is_root_dot):
        info = RRInfo()
        area = rec.su[skip:]
        base = rec.su_off + skip
        name_parts = []
        name_done = False
        sl_comps = []            # list of (flags, bytes)
        sl_continue = False
        sl_seen = False
        seen = set()
        hops = 0
        where = 'dr'
        while True:
            ce = None
            off = 0
            n = len(area)
            while off < n:
                if n - off == 1:
                    if area[off] != 0:
                        self.anom('susp.4/pad-byte-nonzero', base + off)
                    break
                if n - off < 4:
                    self.anom('susp.4/trailing-bytes', base + off, 'left=%d' % (n - off))
                    break
                sig = bytes(area[off:off + 2])
                ln = area[off + 2]
                ver = area[off + 3]
                if where == 'ce' and sig == b'\x00\x00':
                    break
                if ln < 4 or off + ln > n:
                    self.anom('susp.4/entry-length', base + off, '%r len=%d left=%d' % (sig, ln, n - off))
                    break
                if ver != 1:
                    self.anom('susp.4/entry-version', base + off + 3, '%r ver=%d' % (sig, ver))
                if sig not in KNOWN:
                    self.anom('susp.4/unknown-entry', base + off, repr(sig))
                body = bytes(area[off + 4:off + ln])
                info.entries.append((sig, base + off, ln, where))
                if sig in (b'PX', b'TF', b'CL', b'PL', b'RE', b'PN', b'SP', b'ER', b'RR', b'CE') and sig in seen:
                    self.anom('rrip/duplicate-entry', base + off, repr(sig))
                seen.add(sig)
                if sig == b'SP':
                    if not is_root_dot:
                        self.anom('susp.5.3/sp-outside-root-dot', base + off)
                    info.sp = body
                elif sig == b'CE':
                    if ln != 28:
                        self.anom('susp.5.1/ce-length', base + off, str(ln))
                    else:
                        vals = []
                        for k in range(3):
                            le = struct.unpack_from('<I', body, k * 8)[0]
                            be = struct.unpack_from('>I', body, k * 8 + 4)[0]
                            if le != be:
                                self.anom('susp.5.1/ce-both-endian', base + off + 4 + k * 8, '%d != %d' % (le, be))
                            vals.append(le)
                        if ce is not None:
                            self.anom('susp.5.1/ce-multiple-in-area', base + off)
                        ce = tuple(vals)
                        self.img.field(base + off + 4, 8, 'ce.block')
                        self.img.field(base + off + 12, 8, 'ce.offset')
                        self.img.field(base + off + 20, 8, 'ce.length')
                elif sig == b'ER':
                    if len(body) >= 4:
                        li, ld, ls, ev = body[0], body[1], body[2], body[3]
                        if 4 + li + ld + ls != len(body):
                            self.anom('susp.5.5/er-lengths', base + off, '%d+%d+%d vs %d' % (li, ld, ls, len(body) - 4))
                        info.er = bytes(body[4:4 + li])
                        if info.er not in ER_IDS:
                            self.anom('rrip.4.3/er-id', base + off, repr(info.er))
                        self.er_id = info.er
                    if not is_root_dot:
                        self.anom('susp.5.5/er-outside-root-dot', base + off)
                elif sig == b'ES':
                    info.es.append(body)
                elif sig == b'RR':
                    if ln != 5:
                        self.anom('rrip/rr-length', base + off, str(ln))
                    else:
                        info.rr_mask = body[0]
                elif sig == b'PX':
                    if ln not in (36, 44):
                        self.anom('rrip.4.1.1/px-length', base + off, str(ln))
                    else:
                        vals = []
                        for k in range((ln - 4) // 8):
                            le = struct.unpack_from('<I', body, k * 8)[0]
                            be = struct.unpack_from('>I', body, k * 8 + 4)[0]
                            if le != be:
                                self.anom('rrip.4.1.1/px-both-endian', base + off + 4 + k * 8, '%d != %d' % (le, be))
                            vals.append(le)
                        info.mode, info.nlink, info.uid, info.gid = vals[:4]
                        if ln == 44:
                            info.serial = vals[4]
                        info.px_len = ln
                        info.has_px = True
                        self.img.field(base + off + 12, 8, 'px.links')
                elif sig == b'PN':
                    info.pn = body
                elif sig == b'SL':
                    if len(body) < 1:
                        self.anom('rrip.4.1.3/sl-short', base + off)
                    else:
                        info.is_symlink = True
                        flags = body[0]
                        p = 1
                        if sl_seen and not sl_continue:
                            # RRIP 4.1.3: the previous SL entry did not announce a continuation, so for a conforming reader
                            # the target ended there; what this entry holds is lost
                            self.anom('rrip.4.1.3/sl-after-final', base + off)
                            p = len(body)
                        sl_seen = True
                        while p < len(body):
                            if p + 2 > len(body):
                                self.anom('rrip.4.1.3.1/component-header', base + off + 4 + p)
                                break
                            cf, cl = body[p], body[p + 1]
                            if p + 2 + cl > len(body):
                                self.anom('rrip.4.1.3.1/component-beyond-entry', base + off + 4 + p, 'len=%d' % cl)
                                break
                            sl_comps.append((cf, bytes(body[p + 2:p + 2 + cl])))
                            if cf & 0x0e and cl != 0:
                                self.anom('rrip.4.1.3.1/special-component-with-content', base + off + 4 + p)
                            p += 2 + cl
                        sl_continue = bool(flags & 1)
                elif sig == b'NM':
                    if len(body) < 1:
                        self.anom('rrip.4.1.4/nm-short', base + off)
                    else:
                        info.has_nm = True
                        flags = body[0]
                        if name_done:
                            self.anom('rrip.4.1.4/nm-after-final', base + off)
                        if flags & 6:
                            info.name_flags |= flags & 6
                        name_parts.append(bytes(body[1:]))
                        if not flags & 1:
                            name_done = True
                elif sig == b'CL':
                    if ln == 12:
                        le, be = struct.unpack_from('<I', body, 0)[0], struct.unpack_from('>I', body, 4)[0]
                        if le != be:
                            self.anom('rrip.4.1.5.1/cl-both-endian', base + off + 4)
                        info.cl = le
                        self.img.field(base + off + 4, 8, 'cl.location')
                    else:
                        self.anom('rrip.4.1.5.1/cl-length', base + off, str(ln))
                elif sig == b'PL':
                    if ln == 12:
                        le, be = struct.unpack_from('<I', body, 0)[0], struct.unpack_from('>I', body, 4)[0]
                        if le != be:
                            self.anom('rrip.4.1.5.2/pl-both-endian', base + off + 4)
                        info.pl = le
                        self.img.field(base + off + 4, 8, 'pl.location')
                    else:
                        self.anom('rrip.4.1.5.2/pl-length', base + off, str(ln))
                elif sig == b'RE':
                    if ln != 4:
                        self.anom('rrip.4.1.5.3/re-length', base + off, str(ln))
                    info.re = True
                elif sig == b'TF':
                    if len(body) < 1:
                        self.anom('rrip.4.1.6/tf-short', base + off)
                    else:
                        flags = body[0]
                        info.tf_flags = flags
                        size = 17 if flags & 0x80 else 7
                        p = 1
                        for bit, nm in enumerate(('creation', 'modify', 'access', 'attributes', 'backup', 'expiration', 'effective')):
                            if flags & (1 << bit):
                                if p + size > len(body):
                                    self.anom('rrip.4.1.6/tf-stamps-beyond-entry', base + off)
                                    break
                                info.tf[nm] = (bytes(body[p:p + size]), base + off + 4 + p)
                                p += size
                        if p != len(body):
                            self.anom('rrip.4.1.6/tf-length', base + off, 'flags=%#x len=%d used=%d' % (flags, len(body), p))
                elif sig == b'ST':
                    break
                off += ln
            if ce is None:
                break
            hops += 1
            if hops > 64:
                self.anom('susp.5.1/ce-chain-too-long', base)
                break
            block, coff, clen = ce
            if coff + clen > SECTOR:
                self.anom('susp.5.1/ce-area-leaves-sector', base, 'block=%d off=%d len=%d' % ce)
            start = block * SECTOR + coff
            if start + clen > len(self.data) or clen == 0 and False:
                self.anom('susp.5.1/ce-area-out-of-image', base, 'block=%d off=%d len=%d' % ce)
                break
            if block < 18:
                # sectors 0-15 are the system area, 16 and 17 at least a volume descriptor and the set terminator
                self.anom('susp.5.1/ce-area-in-system-area-or-descriptors', base, 'block=%d off=%d len=%d' % ce)
            info.ce_areas.append(ce)
            self.all_ce.append((block, coff, clen, rec.off))
            area = self.data[start:start + clen]
            base = start
            where = 'ce'
        if name_parts:
            if not name_done:
                self.anom('rrip.4.1.4/nm-unterminated', rec.off)
            info.name = b''.join(name_parts)
        if info.is_symlink:
            if sl_continue:
                self.anom('rrip.4.1.3/sl-unterminated', rec.off)
            info.target = assemble_target(sl_comps, self, rec.off)
            info.sl_raw = sl_comps
        return info

    def _check_ce_overlaps(self):
        areas = sorted(set((b * SECTOR + o, l, owner) for b, o, l, owner in self.all_ce))
        prev_end = -1
        prev = None
        for start, ln, owner in areas:
            if ln == 0:
                continue
            if start < prev_end:
                self.anom('susp.5.1/ce-areas-overlap', start, 'area of record @%d overlaps area of record @%d' % (owner, prev))
            if start + ln > prev_end:
                prev_end = start + ln
                prev = owner


def assemble_target(comps, dec, off):
    """RRIP 4.1.3: reassemble the symlink target from component records."""
    out = []
    cur = b''
    absolute = False
    first = True
    pending = False
    for cf, content in comps:
        if cf & 0x08:            # ROOT
            if not first:
                dec.anom('rrip.4.1.3.1/root-not-first', off)
            absolute = True
            first = False
            continue
        first = False
        if cf & 0x02:
            piece = b'.'
        elif cf & 0x04:
            piece = b'..'
        else:
            piece = content
        cur += piece
        if cf & 0x01:            # continues in next component record
            pending = True
            continue
        pending = False
        out.append(cur)
        cur = b''
    if pending:
        dec.anom('rrip.4.1.3.1/component-continue-unterminated', off)
        out.append(cur)
    t = b'/'.join(out)
    if absolute:
        t = b'/' + t
    return t
