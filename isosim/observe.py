"""What the library itself reports about an image: walk in all namespaces,
get_record flags, symlink targets, file_mode, and every file's bytes through
both read routes."""
import io
import zlib
import struct

from . import content
from .driver import blob_data


class Resolver:
    """Maps bytes read back to a content key, using attributable content."""

    def __init__(self, model):
        self.model = model

    def key(self, data):
        if len(data) == 0:
            return ('empty',)
        m = self.model
        if len(data) < 8:
            return ('tiny', data.hex())
        if len(data) == 2048 and data[0:1] == b'\x01' and data[30:32] == b'\x55\xaa':
            return ('cat',)
        # attribute by the first stripe header that survives (boot info table
        # overwrites bytes 8..63, i.e. part of the header of stripe 0)
        bid = None
        if data[:4] == content.MAGIC and len(data) >= 8:
            bid = struct.unpack_from('>I', data, 4)[0]
        b = m.blobs.get(bid) if bid is not None else None
        if b is None:
            return ('bad', 'unattributable', len(data), data[:16].hex())
        want = blob_data(b)
        if len(want) != len(data):
            return ('bad', 'length', b.id, len(data), len(want))
        if b.bit or b.baked:
            if data[:8] == want[:8] and data[64:] == want[64:]:
                return ('blob', b.id)
            return ('bad', 'bytes-bit', b.id)
        if data == want:
            return ('blob', b.id)
        # locate first difference
        i = next(i for i in range(len(want)) if data[i] != want[i])
        return ('bad', 'bytes', b.id, i)


def decode_udf_symlink(data):
    """Independent decoding of ECMA-167 14.16 path components."""
    comps = []
    off = 0
    absolute = False
    while off < len(data):
        ctype = data[off]
        ln = data[off + 1]
        ident = data[off + 4:off + 4 + ln]
        off += 4 + ln
        if ctype == 2:
            absolute = True
        elif ctype == 3:
            comps.append('..')
        elif ctype == 4:
            comps.append('.')
        elif ctype == 5:
            if ident[:1] == b'\x08':
                comps.append(ident[1:].decode('latin-1'))
            elif ident[:1] == b'\x10':
                comps.append(ident[1:].decode('utf-16_be'))
            else:
                comps.append('?')
        elif ctype == 1:
            absolute = True
        else:
            comps.append('?%d' % ctype)
    return ('/' if absolute else '') + '/'.join(comps)


def read_both(iso, kw, pexc):
    """Read a file through get_file_from_iso_fp and through open_file_from_iso;
    returns (data, route_mismatch)."""
    out = io.BytesIO()
    try:
        iso.get_file_from_iso_fp(out, **kw)
        d1 = out.getvalue()
    except pexc.PyCdlibInvalidInput as e:
        if 'without data' in str(e) or 'empty UDF File Entry' in str(e):
            return b'', None
        raise
    try:
        with iso.open_file_from_iso(**kw) as f:
            d2 = f.read()
    except pexc.PyCdlibInvalidInput as e:
        if 'no data' in str(e):
            # the stream route refuses entries without data identity (boot
            # catalog, UDF-symlink companions): a refusal, not wrong bytes
            return d1, None
        raise
    if d1 != d2:
        if len(d1) == len(d2) and d1[:8] == d2[:8] and d1[64:] == d2[64:]:
            # differs only inside the boot-info-table window (bytes 8..63): which
            # of the two the stream route shows before mastering is not stated
            # anywhere (C11 judges the table on the documented read-back route)
            return d1, None
        return d1, ('route-mismatch', len(d1), len(d2))
    return d1, None


def facade_pass(iso, ns, arg, getter, v, hashes, anomalies, pexc):
    """Third read route: the per-namespace facade objects (pycdlib/facade.py) must show the same names as
    the direct walk, hand out the same records and - for a fixed half of the files, chosen by a hash of the
    path so that no PRNG stream is touched - the same bytes as get_file_from_iso_fp."""
    tag = {'facade_' + ns: '/'}
    try:
        fac = getter()
        seen = set()
        for dirpath, dirs, files in fac.walk('/'):
            for d in dirs:
                seen.add((join(dirpath, d), True))
            for f in files:
                seen.add((join(dirpath, f), False))
    except pexc.PyCdlibException as e:
        anomalies.append((tag, ('facade-walk-exception', type(e).__name__, str(e)[:60])))
        return
    direct = set((p, v[p][0] == 'dir') for p in v if p != '/')
    if seen != direct:
        diff = sorted(seen ^ direct)
        anomalies.append((tag, ('facade-names-differ', len(diff), diff[0])))
        return
    if ns in ('iso', 'joliet'):
        # the deprecated alias of list_children, on the root
        try:
            a1 = [id(c) for c in iso.list_dir('/', joliet=(ns == 'joliet'))]
            a2 = [id(c) for c in iso.list_children(**{arg: '/'})]
        except pexc.PyCdlibException as e:
            anomalies.append((tag, ('list_dir-exception', type(e).__name__, str(e)[:60])))
        else:
            if a1 != a2:
                anomalies.append((tag, ('list_dir-differs', len(a1), len(a2))))
    for (a, p), (ln, crc) in sorted(hashes.items()):
        if a != arg or zlib.crc32(p.encode('utf-8')) & 1:
            continue
        one = {'facade_' + ns: p}
        try:
            rec = iso.get_record(**{arg: p})
            if fac.get_record(p) is not rec:
                anomalies.append((one, ('facade-record-differs',)))
            if ns in ('iso', 'joliet') and iso.get_entry(p, joliet=(ns == 'joliet')) is not rec:
                # the deprecated alias of get_record
                anomalies.append((one, ('get_entry-record-differs',)))
            o = io.BytesIO()
            fac.get_file_from_iso_fp(o, p)
            d = o.getvalue()
        except pexc.PyCdlibInvalidInput as e:
            if ln == 0 and ('without data' in str(e) or 'empty UDF File Entry' in str(e)):
                continue
            anomalies.append((one, ('facade-read-exception', type(e).__name__, str(e)[:60])))
            continue
        if (len(d), zlib.crc32(d)) != (ln, crc):
            anomalies.append((one, ('facade-bytes-differ', ln, len(d))))


def join(parent, name):
    return (parent if parent != '/' else '') + '/' + name


def api_view(iso, model, pexc, read_content=True):
    """Return {ns: {path: tuple}} in the shape of Model.view(), plus a list of
    anomalies noticed while observing."""
    res = Resolver(model)
    anomalies = []
    out = {}
    hashes = {}

    def fkey(kw):
        if not read_content:
            return None
        data, mm = read_both(iso, kw, pexc)
        if mm:
            anomalies.append((kw, mm))
        (arg, path), = kw.items()
        hashes[(arg, path)] = (len(data), zlib.crc32(data))
        return res.key(data)

    # ISO9660
    v = {}
    for dirpath, dirs, files in iso.walk(iso_path='/'):
        if dirpath == '/':
            v['/'] = ('dir', False, None)
        for d in dirs:
            p = join(dirpath, d)
            rec = iso.get_record(iso_path=p)
            v[p] = ('dir', bool(rec.file_flags & 1), None)
        for f in files:
            p = join(dirpath, f)
            rec = iso.get_record(iso_path=p)
            if rec.is_dir():
                # the placeholder of a relocated directory: listed as a file, resolved to the directory
                v[p] = ('file', bool(rec.file_flags & 1), ('reloc',))
            elif rec.is_symlink():
                v[p] = ('file', bool(rec.file_flags & 1), None)
            else:
                v[p] = ('file', bool(rec.file_flags & 1), fkey({'iso_path': p}))
    out['iso'] = v
    facade_pass(iso, 'iso', 'iso_path', iso.get_iso9660_facade, v, hashes, anomalies, pexc)
    if iso.has_rock_ridge():
        v = {}
        for dirpath, dirs, files in iso.walk(rr_path='/'):
            if dirpath == '/':
                v['/'] = ('dir', None, None, None)
            for d in dirs:
                p = join(dirpath, d)
                v[p] = ('dir', None, None, iso.file_mode(rr_path=p))
            for f in files:
                p = join(dirpath, f)
                rec = iso.get_record(rr_path=p)
                mode = iso.file_mode(rr_path=p)
                if rec.is_symlink():
                    v[p] = ('symlink', None, rec.rock_ridge.symlink_path().decode('utf-8'), mode)
                else:
                    v[p] = ('file', fkey({'rr_path': p}), None, mode)
        out['rr'] = v
        facade_pass(iso, 'rr', 'rr_path', iso.get_rock_ridge_facade, v, hashes, anomalies, pexc)
    if iso.has_joliet():
        v = {}
        for dirpath, dirs, files in iso.walk(joliet_path='/'):
            if dirpath == '/':
                v['/'] = ('dir', False, None)
            for d in dirs:
                p = join(dirpath, d)
                rec = iso.get_record(joliet_path=p)
                v[p] = ('dir', bool(rec.file_flags & 1), None)
            for f in files:
                p = join(dirpath, f)
                rec = iso.get_record(joliet_path=p)
                v[p] = ('file', bool(rec.file_flags & 1), fkey({'joliet_path': p}))
        out['joliet'] = v
        facade_pass(iso, 'joliet', 'joliet_path', iso.get_joliet_facade, v, hashes, anomalies, pexc)
    if iso.has_udf():
        v = {}
        for dirpath, dirs, files in iso.walk(udf_path='/'):
            if dirpath == '/':
                v['/'] = ('dir', None, None)
            for d in dirs:
                v[join(dirpath, d)] = ('dir', None, None)
            for f in files:
                p = join(dirpath, f)
                rec = iso.get_record(udf_path=p)
                if rec is not None and rec.is_symlink():
                    o = io.BytesIO()
                    tgt = None
                    if rec.inode is not None:
                        # no public API returns a UDF symlink's target; read its
                        # recorded path components and decode them independently
                        from pycdlib import inode as _inode
                        with _inode.InodeOpenData(rec.inode, 2048) as (fp, ln):
                            tgt = decode_udf_symlink(fp.read(ln))
                    v[p] = ('symlink', None, tgt)
                else:
                    v[p] = ('file', fkey({'udf_path': p}), None)
        out['udf'] = v
        facade_pass(iso, 'udf', 'udf_path', iso.get_udf_facade, v, hashes, anomalies, pexc)
    return out, anomalies


def compare_views(expected, observed):
    """Yield mismatch tuples (namespace, kind, path, expected, observed)."""
    out = []
    for ns in expected:
        if ns not in observed:
            out.append((ns, 'namespace-missing', None, None, None))
            continue
        e = expected[ns]
        o = observed[ns]
        for p in e:
            if p not in o:
                out.append((ns, 'missing', p, e[p], None))
                continue
            ev, ov = e[p], o[p]
            if ns == 'rr' and ev[3] is None:
                ov = ov[:3] + (None,)
            if ns in ('rr', 'udf') and ev[0] == 'symlink':
                # a target is compared component-wise modulo redundant slashes
                pass
            if ns == 'iso' and ev[0] == ov[0] == 'file' and ev[2] == ('reloc',):
                continue            # a relocation placeholder: any non-directory record will do
            if ev != ov:
                kind = 'type' if ev[0] != ov[0] else 'attr'
                if ev[0] == ov[0] == 'file':
                    ek = ev[2] if ns in ('iso', 'joliet') else ev[1]
                    ok = ov[2] if ns in ('iso', 'joliet') else ov[1]
                    if ek != ok:
                        kind = 'bytes'
                    elif ns in ('iso', 'joliet') and ev[1] != ov[1]:
                        kind = 'flag'
                    else:
                        kind = 'mode'
                elif ev[0] == ov[0] == 'symlink':
                    kind = 'target' if ev[2] != ov[2] else 'mode'
                elif ev[0] == ov[0] == 'dir':
                    kind = 'flag' if ns in ('iso', 'joliet') else 'mode'
                out.append((ns, kind, p, ev, ov))
        for p in o:
            if p not in e:
                out.append((ns, 'extra', p, None, o[p]))
    for ns in observed:
        if ns not in expected:
            out.append((ns, 'namespace-extra', None, None, None))
    return out


def _keykind(entry, ns):
    if entry is None:
        return '-'
    k = entry[2] if ns in ('iso', 'joliet') else entry[1]
    if k is None:
        return 'none'
    if k[0] == 'bad':
        return 'bad.' + str(k[1])
    return k[0]


def mismatch_sig(mm):
    """A signature specific enough to tell two defects apart and stable under
    minimisation: (namespace, mismatch kind, entry kind, expected content kind -> observed)."""
    ns, kind, path, ev, ov = mm
    ek = (ev or ov)[0] if (ev or ov) else '-'
    if kind == 'bytes':
        return (ns, kind, ek, _keykind(ev, ns) + '->' + _keykind(ov, ns))
    if kind in ('missing', 'extra'):
        return (ns, kind, ek, _keykind(ev or ov, ns))
    return (ns, kind, ek)
