"""Model-directed, boundary-biased generation of *valid* edit ops, and of the
swarm configuration of a run.  Every draw comes from the rngs handed in."""
from . import model as M

DCHARS = 'ABCDEFGHIJKLMNOPQRSTUVWXYZ0123456789_'
L4CHARS = DCHARS + 'abcdefghijklmnopqrstuvwxyz-+=!#$%&()[]{}~^@ ,' + 'éü'
RRCHARS = 'abcdefghijklmnopqrstuvwxyzABCDEFGHIJKLMNOPQRSTUVWXYZ0123456789_-.+ ,=%@'
UNI_LATIN1 = 'éèüñßåøÇÿ©'
UNI_BMP = '中文日本語한국ЖдΩאا€☃'
UNI_ASTRAL = '\U0001F600\U0001F4BE\U00010348\U0002070E'
SIZES = (0, 0, 1, 2, 63, 64, 65, 100, 511, 512, 2047, 2048, 2049, 4095, 4096, 4097, 6143, 6144, 10000, 20480, 65536 - 1)


def swarm_config(r, bias=None):
    """Draw a configuration.  ``bias`` may force some keys."""
    cfg = {
        'level': r.choice((1, 2, 3, 3, 4)),
        'joliet': r.choice((None, None, 1, 2, 3, 3)),
        'rr': r.choice((None, None, '1.09', '1.10', '1.12')),
        'udf': r.random() < 0.35,
        'xa': r.random() < 0.2,
        'always_consistent': r.random() < 0.25,
    }
    # the volume descriptor fields new() takes; most runs leave them at their defaults
    if r.random() < 0.3:
        ss = r.choice((1, 2, 4, 255, 65535))
        cfg['set_size'] = ss
        cfg['seqnum'] = r.choice((1, ss, max(1, ss // 2), r.randint(1, ss)))
    txt = lambda n: ''.join(r.choice('ABCDEFGHIJKLMNOPQRSTUVWXYZ0123456789_') for _ in range(n))     # noqa: E731
    for key, limit in (('vol_ident', 32), ('sys_ident', 32), ('vol_set_ident', 128), ('pub_ident_str', 128), ('preparer_ident_str', 128),
                       ('app_ident_str', 128), ('copyright_file', 37), ('abstract_file', 37), ('bibli_file', 37)):
        if r.random() < 0.08:
            cfg[key] = txt(r.choice((1, limit // 4, limit // 2, limit)))
    if r.random() < 0.05:
        cfg['app_use'] = txt(r.choice((1, 100, 140, 512)))
    if bias:
        cfg.update(bias)
    return clamp_config(cfg)


def clamp_config(cfg):
    """Documented limits of new(): the Joliet descriptor holds the same strings in UCS-2 (half as many characters fit), and
    an XA image keeps part of the application use area for itself.  Call again after changing 'joliet' or 'xa'."""
    if cfg.get('joliet'):
        for key, limit in (('vol_ident', 16), ('sys_ident', 16), ('vol_set_ident', 64), ('pub_ident_str', 64), ('preparer_ident_str', 64),
                           ('app_ident_str', 64), ('copyright_file', 18), ('abstract_file', 18), ('bibli_file', 18)):
            if cfg.get(key):
                cfg[key] = cfg[key][:limit]
    if cfg.get('xa') and cfg.get('app_use'):
        cfg['app_use'] = cfg['app_use'][:140]
    return cfg


def new_kwargs(cfg):
    kw = {'interchange_level': cfg['level']}
    if cfg.get('joliet'):
        kw['joliet'] = cfg['joliet']
    if cfg.get('rr'):
        kw['rock_ridge'] = cfg['rr']
    if cfg.get('udf'):
        kw['udf'] = '2.60'
    if cfg.get('xa'):
        kw['xa'] = True
    for k in ('vol_ident', 'sys_ident', 'app_use', 'vol_set_ident', 'pub_ident_str', 'preparer_ident_str',
              'app_ident_str', 'copyright_file', 'abstract_file', 'bibli_file', 'set_size', 'seqnum', 'vol_expire_date'):
        if cfg.get(k) is not None:
            kw[k] = cfg[k]
    return kw


class NameGen:
    def __init__(self, r, cfg):
        self.r = r
        self.cfg = cfg
        self.n = 0

    def _word(self, chars, lo, hi):
        r = self.r
        n = r.randint(lo, hi)
        return ''.join(r.choice(chars) for _ in range(n))

    def _edge(self, lo, hi, edges):
        r = self.r
        c = [e for e in edges if lo <= e <= hi]
        if c and r.random() < 0.35:
            return r.choice(c)
        if r.random() < 0.6:
            return r.randint(lo, min(hi, lo + 7))
        return r.randint(lo, hi)

    def iso_file(self, long_ok=True):
        r = self.r
        lvl = self.cfg['level']
        chars = DCHARS if lvl < 4 else L4CHARS
        if lvl == 1:
            ln = self._edge(0, 8, (0, 1, 8))
            le = self._edge(0, 3, (0, 3))
            if ln == 0 and le == 0:
                ln = 1
        else:
            maxtot = 30 if lvl < 4 else (60 if long_ok else 30)
            tot = self._edge(1, maxtot, (1, 8, 9, 12, 29, 30, 31, 37, 59, 60))
            if lvl == 4 and long_ok and r.random() < 0.08:
                # up to what still fits a directory record (with Rock Ridge: a record that has room for nothing but the CE entry)
                top = self.l4_max() - 8
                tot = self._edge(61, top, (top, top - 1, top - 2, top - 5, top - 6, top - 20, 100, 150))
            le = r.choice((0, 0, 1, 3, 3, 3, min(tot, 7)))
            le = min(le, tot)
            ln = tot - le
        name = ''.join(r.choice(chars) for _ in range(ln))
        ext = ''.join(r.choice(chars) for _ in range(le))
        if lvl == 4:
            # '.' and ';' are structural; a name must not normalise away
            name = name.replace('.', '_').replace(';', '_')
            ext = ext.replace('.', '_').replace(';', '_')
        k = r.random()
        if k < 0.8:
            ver = ';1'
        elif k < 0.9:
            ver = ';' + str(r.choice((2, 9, 32767, r.randint(1, 32767))))
        else:
            ver = ''
        ident = name + '.' + ext + ver
        if ident.split(';')[0] in ('.', '..'):
            ident = 'X' + ident
        if lvl == 4:
            # the limit is in bytes, and two of the level-4 characters take two
            while len(ident.encode('utf-8')) > self.l4_max() and len(name) > 1:
                name = name[:-1]
                ident = name + '.' + ext + ver
        return ident

    def iso_dir(self):
        r = self.r
        lvl = self.cfg['level']
        chars = DCHARS if lvl < 4 else L4CHARS.replace('.', '')
        if lvl == 1:
            n = self._edge(1, 8, (1, 8))
        elif lvl < 4:
            n = self._edge(1, 31, (1, 8, 9, 30, 31))
        else:
            n = self._edge(1, 60, (1, 8, 9, 31, 60))
            if r.random() < 0.06:
                top = self.l4_max()
                n = self._edge(61, top, (top, top - 1, top - 5, top - 6, 100, 150))
        s = ''.join(r.choice(chars) for _ in range(n))
        if lvl == 4:
            while len(s.encode('utf-8')) > self.l4_max() and len(s) > 1:
                s = s[:-1]
        if s in ('.', '..'):
            s = 'D' + s
        return s

    def l4_max(self):
        """Longest level-4 identifier the library takes: 207 as documented for directories, less where the Rock Ridge CE
        entry and the XA record must still fit into the 255-byte directory record."""
        top = 193 if self.cfg.get('rr') else 207
        if self.cfg.get('xa'):
            top -= 14
        return top

    rr_max = 255

    def rr_name(self):
        r = self.r
        k = r.random()
        if k < 0.6:
            n = r.randint(1, 12)
        elif k < 0.85:
            n = self._edge(1, 255, (1, 60, 100, 150, 200, 224, 250, 254, 255))
        elif self.rr_max > 255 and k > 0.93:
            n = self._edge(256, self.rr_max, (256, 300, 500, 501, 750, 1000, 1100))
        else:
            n = self._edge(1, 255, (100, 180, 190, 200, 210, 220, 230, 240, 250))
        s = ''.join(r.choice(RRCHARS) for _ in range(n))
        if r.random() < 0.1:
            s = s[:max(1, n - 2)] + r.choice(UNI_LATIN1 + UNI_BMP)
        if s in ('.', '..'):
            s = 'r' + s
        return s

    def uni_name(self, maxbytes, maxchars=64):
        """A Unicode name with at most maxbytes UTF-8 bytes and maxchars characters."""
        r = self.r
        k = r.random()
        if k < 0.5:
            pool = RRCHARS
        elif k < 0.7:
            pool = RRCHARS + UNI_LATIN1
        elif k < 0.9:
            pool = RRCHARS + UNI_BMP + UNI_LATIN1
        else:
            pool = RRCHARS + UNI_BMP + UNI_ASTRAL
        n = self._edge(1, maxchars, (1, 16, 31, 32, 63, 64))
        out = ''
        nb = 0
        for _ in range(n):
            c = r.choice(pool)
            b = len(c.encode('utf-8'))
            if nb + b > maxbytes:
                break
            out += c
            nb += b
        if not out or out in ('.', '..'):
            out = 'u' + str(self.r.randrange(1000))
        return out

    def symlink_target(self, maxcomp=300):
        r = self.r
        k = r.random()
        comps = []
        n = r.choice((1, 1, 2, 3, 5, 8, 20, 40)) if k < 0.9 else 1
        for _ in range(n):
            j = r.random()
            if j < 0.15:
                comps.append('.')
            elif j < 0.3:
                comps.append('..')
            elif j < 0.8:
                comps.append(self._word(RRCHARS.replace('.', ''), 1, 12))
            elif j < 0.84:
                # beyond Latin-1: UDF records such a component in 16-bit characters, Rock Ridge as UTF-8 bytes
                comps.append(self._word(RRCHARS.replace('.', '') + UNI_BMP + UNI_BMP, 1, 10))
            elif j < 0.9:
                # names that start or end like the special components
                comps.append(r.choice(('.', '..', '...')) + self._word(RRCHARS.replace('.', ''), 0 if r.random() < 0.2 else 1, 10) + r.choice(('', '', '.', '..')))
                if comps[-1] in ('.', '..'):
                    comps[-1] += 'x'
            else:
                lo, hi = r.choice(((100, 120), (200, 249), (250, 250), (255, 255), (256, 300)))
                comps.append(self._word(RRCHARS.replace('.', ''), min(lo, maxcomp), min(hi, maxcomp)))
        # the Rock Ridge entries that overflow the directory record have to fit into one 2048-byte continuation area
        while comps and sum(len(c.encode('utf-8')) + 2 for c in comps) + 5 * (1 + len(comps) // 20) > 1600:
            comps.pop()
        t = '/'.join(comps) or 'x'
        if r.random() < 0.3:
            t = '/' + t
        return t


WEIGHTS = {
    'add_fp': 30, 'add_dir': 14, 'rm_file': 6, 'rm_dir': 4, 'add_link': 8, 'rm_link': 5,
    'add_symlink': 5, 'hide': 3, 'add_eltorito': 3, 'rm_eltorito': 1, 'add_isohybrid': 1,
    'rm_isohybrid': 1, 'dup_pvd': 0.3, 'restart': 4, 'mass_dirs': 1, 'mass_files': 1, 'add_boot_file': 0, 're_add': 1.5, 'chain_dirs': 0.8, 'mass_eltorito': 0.05, 'shared_hidden_boot': 0.5, 'hybrid_setup': 0.3, 'set_relocated_name': 0.6, 'recreate_dir': 1.2, 'mass_rm_dirs': 0.8, 'twin_links': 0.6, 'ptr_cycle': 0.04,
}


class OpGen:
    """Generates ops that the *documented* rules accept, relative to the
    model's current state."""

    def __init__(self, r_ops, r_args, model, weights=None, maxdepth=7, allow=None, size_choices=SIZES):
        self.ro = r_ops
        self.ra = r_args
        self.m = model
        self.names = NameGen(r_args, model.cfg)
        self.w = dict(WEIGHTS)
        if weights:
            self.w.update(weights)
        if allow is not None:
            for k in list(self.w):
                if k not in allow:
                    self.w[k] = 0
        self.maxdepth = maxdepth
        self.next_blob = 1
        self.sizes = size_choices
        self.zero_bias = 0.0

    # -- picking helpers -------------------------------------------------
    def _pick_dir(self, ns, maxdepth=None):
        dirs = self.m.dirs(ns)
        if maxdepth is not None:
            dirs = [d for d in dirs if self.m.depth(d) < maxdepth]
        if not dirs:
            return None
        r = self.ra
        if r.random() < 0.4:
            return '/'
        return r.choice(dirs)

    def _iso_maxdepth_for_dir(self):
        cfg = self.m.cfg
        if cfg.get('rr') or cfg['level'] == 4:
            return self.maxdepth
        return min(self.maxdepth, 7)

    def _catalog_twin(self, ns, parent):
        """The identifier the boot catalog has in namespace ns, if it is free in `parent` (an ordinary file that is called
        like the catalog but lives elsewhere must stay an ordinary file)."""
        m = self.m
        if not m.eltorito or self.ra.random() > 0.12:
            return None
        for p, n in m.iter_ns(ns):
            if n.kind == 'file' and n.blob == 'cat':
                cp, nm = M.split(p)
                if cp != parent and M._valid_new(m, ns, M.join(parent, nm)):
                    return nm
        return None

    def _new_iso_name(self, parent, isdir, long_ok=True):
        if not isdir:
            twin = self._catalog_twin('iso', parent)
            if twin is not None:
                return twin
        for _ in range(20):
            nm = self.names.iso_dir() if isdir else self.names.iso_file(long_ok)
            pnode = self.m.get('iso', parent)
            if nm in pnode.children:
                continue
            # ECMA-119 identifiers are compared without regard to how pycdlib keys
            # them; keep identifiers distinct even ignoring the version
            base = nm.split(';')[0]
            if any(k.split(';')[0] == base for k in pnode.children):
                continue
            return nm
        return None

    def _new_rr_name(self, parent):
        # after a directory with a long Rock Ridge name went away, names a byte or two around its length are what
        # decides whether the freed continuation area is reused, split or overrun
        freed = getattr(self, 'freed_rr_lens', None)
        if freed and self.ra.random() < 0.4:
            ln = max(1, self.ra.choice(freed) + self.ra.choice((-2, -1, 0, 1, 1, 2, 3)))
            for _ in range(5):
                nm = ''.join(self.ra.choice(RRCHARS.replace('.', '')) for _ in range(min(ln, 250)))
                if nm not in ('.', '..') and self.m.rr_free(parent, nm):
                    return nm
        for _ in range(20):
            nm = self.names.rr_name()
            if self.m.rr_free(parent, nm):
                return nm
        return None

    def _new_uni_name(self, ns, parent, maxbytes):
        pnode = self.m.get(ns, parent)
        twin = self._catalog_twin(ns, parent)
        if twin is not None and twin not in pnode.children:
            return twin
        for _ in range(20):
            nm = self.names.uni_name(maxbytes)
            if nm not in pnode.children:
                return nm
        return None

    def _size(self):
        r = self.ra
        if r.random() < self.zero_bias:
            return 0
        return r.choice(self.sizes)

    # -- op constructors ------------------------------------------------
    def gen(self):
        """Return one valid op (dict) or None if nothing could be generated."""
        kinds = [k for k, w in self.w.items() if w > 0]
        weights = [self.w[k] for k in kinds]
        for _ in range(12):
            kind = self.ro.choices(kinds, weights)[0]
            op = getattr(self, 'g_' + kind)()
            if op is not None:
                return op
        return self.g_add_fp()

    def _targets(self, want_file=True, nss=None):
        """Choose which namespaces an add addresses (at least one)."""
        m = self.m
        r = self.ra
        avail = [ns for ns in M.NSS if m.has(ns)]
        k = r.random()
        if k < 0.6:
            chosen = list(avail)
        elif k < 0.8:
            chosen = ['iso']
        else:
            chosen = [ns for ns in avail if r.random() < 0.5]
            if not chosen:
                chosen = [r.choice(avail)]
        return chosen

    def g_add_fp(self, size=None, nss=None):
        m = self.m
        chosen = nss or self._targets()
        op = {'op': 'add_fp', 'blob': self.next_blob, 'len': self._size() if size is None else size}
        if 'iso' in chosen:
            parent = self._pick_dir('iso', 7 if not (m.rr or m.cfg['level'] == 4) else None)
            if parent is None:
                return None
            if not (m.rr or m.cfg['level'] == 4) and m.depth(parent) >= 7:
                return None
            nm = self._new_iso_name(parent, False)
            if nm is None:
                return None
            op['iso'] = M.join(parent, nm)
            if m.rr:
                rn = self._new_rr_name(parent)
                if rn is None:
                    return None
                op['rr'] = rn
                if self.ra.random() < 0.5:
                    op['mode'] = self.ra.choice((0o100444, 0o100644, 0o100755, 0o100400, 0o100777, 0o104755, 0o102750, 0o101777, 0o107777))
        if 'joliet' in chosen:
            parent = self._pick_dir('joliet')
            nm = self._new_uni_name('joliet', parent, 64)
            if nm is None:
                return None
            op['joliet'] = M.join(parent, nm)
        if 'udf' in chosen:
            parent = self._pick_dir('udf')
            nm = self._new_uni_name('udf', parent, 120)
            if nm is None:
                return None
            op['udf'] = M.join(parent, nm)
        op['route'] = self.ra.choice(('fp', 'fp', 'fp', 'file'))
        if op['route'] == 'fp' and self.ra.random() < 0.15:
            op['tail'] = self.ra.choice((1, 3, 100, 2048, 5000))     # the file object holds more than `length` bytes
        self.next_blob += 1
        return op

    def g_add_boot_file(self):
        """A file shaped so that it can serve as an El Torito / isohybrid boot image."""
        r = self.ra
        kind = r.choice(('isolinux', 'isolinux', 'hd', 'hd', 'plain', 'floppy'))
        if kind == 'floppy' and r.random() < 0.7:
            kind = 'isolinux'
        if kind == 'floppy':
            size = r.choice((1228800, 1474560, 2949120))
        else:
            size = r.choice((512, 513, 1024, 2047, 2048, 2049, 4096, 6000, 8192, 20480, 40000))
        op = self.g_add_fp(size=size, nss=['iso'] if r.random() < 0.5 else None)
        if op is None or 'iso' not in op:
            return None
        ov = []
        if kind == 'isolinux':
            ov.append([0x40, 'fbc07870'])
        elif kind == 'hd':
            import struct
            ptype = r.choice((0x06, 0x0b, 0x0c, 0x83, 0xef, 0x17, 1))
            heads, secs, cyls = r.choice(((1, 1, 0), (15, 63, 3), (254, 63, 10)))
            ent = struct.pack('<BBBBBBBBII', r.choice((0x80, 0x80, 0)), 1, 1, 0, ptype, heads, secs | ((cyls >> 2) & 0xc0), cyls & 0xff,
                              secs, (cyls + 1) * (heads + 1) * secs)
            slot = r.randrange(4)
            table = b''.join(ent if k == slot else b'\x00' * 16 for k in range(4))
            ov.append([446, (table + b'\x55\xaa').hex()])
            op['_mbr_type'] = ptype
        op['overlays'] = ov
        op['bootkind'] = kind
        return op

    def g_add_dir(self, nss=None):
        m = self.m
        chosen = nss or self._targets()
        op = {'op': 'add_dir'}
        if 'iso' in chosen:
            parent = self._pick_dir('iso', self._iso_maxdepth_for_dir())
            if parent is None:
                return None
            nm = self._new_iso_name(parent, True)
            if nm is None:
                return None
            op['iso'] = M.join(parent, nm)
            if m.rr:
                rn = self._new_rr_name(parent)
                if rn is None:
                    return None
                op['rr'] = rn
                if self.ra.random() < 0.5:
                    op['mode'] = self.ra.choice((0o040555, 0o040755, 0o040700, 0o040777))
        if 'joliet' in chosen:
            parent = self._pick_dir('joliet', self.maxdepth)
            if parent is None:
                return None
            nm = self._new_uni_name('joliet', parent, 64)
            op['joliet'] = M.join(parent, nm)
        if 'udf' in chosen:
            parent = self._pick_dir('udf', self.maxdepth)
            if parent is None:
                return None
            nm = self._new_uni_name('udf', parent, 120)
            op['udf'] = M.join(parent, nm)
        if len(op) == 1:
            return None
        return op

    def _rm_file_ok(self, ns, path, node):
        m = self.m
        if node.kind != 'file' or node.blob == 'cat':
            return False
        if isinstance(node.blob, int) and node.blob in m.eltorito_blobs():
            return False
        return True

    def _zero_identity_unsafe(self, node):
        """After a restart all zero-length content shares one identity on
        disc; rm_file on such a name is three-valued (only C07 goes there)."""
        m = self.m
        return False    # since the fix 'zero-length files keep an identity of their own' a restart no longer merges them
        if node.blob is None:
            return node.gen < m.generation
        if isinstance(node.blob, int):
            b = m.blobs[node.blob]
            return b.length == 0 and b.gen < m.generation
        return False

    def g_rm_file(self):
        m = self.m
        cands = []
        for ns in m.roots:
            for p, n in m.iter_ns(ns):
                if self._rm_file_ok(ns, p, n) and not self._zero_identity_unsafe(n):
                    if ns == 'udf' and n.noinode:
                        continue
                    cands.append((ns, p))
        if not cands:
            return None
        ns, p = self.ra.choice(cands)
        return {'op': 'rm_file', 'ns': ns, 'path': p}

    def g_rm_dir(self):
        m = self.m
        op = {'op': 'rm_dir'}
        avail = [ns for ns in m.roots]
        self.ra.shuffle(avail)
        for ns in avail:
            cands = [p for p, n in m.iter_ns(ns) if n.kind == 'dir' and not n.children]
            if cands and (len(op) == 1 or self.ra.random() < 0.5):
                if ns == 'iso' and m.rr and self.ra.random() < 0.6:
                    # prefer the directory whose Rock Ridge name needed a continuation area
                    longs = [p for p in cands if m.get('iso', p).rr and len(m.get('iso', p).rr) > 90]
                    cands = longs or cands
                op[ns] = self.ra.choice(cands)
        if len(op) == 1:
            return None
        if op.get('iso') and m.rr:
            rrn = m.get('iso', op['iso']).rr
            if rrn and len(rrn.encode('utf-8')) > 60:
                if not hasattr(self, 'freed_rr_lens'):
                    self.freed_rr_lens = []
                self.freed_rr_lens.append(len(rrn.encode('utf-8')))
        return op

    def g_add_link(self):
        m = self.m
        r = self.ra
        olds = []
        for ns in m.roots:
            for p, n in m.iter_ns(ns):
                if n.kind == 'file' and isinstance(n.blob, int) and not n.noinode:
                    if self._zero_identity_unsafe(n):
                        continue
                    olds.append((ns, p))
        if m.eltorito and r.random() < 0.2:
            olds.append(('bootcat', None))
        if not olds:
            return None
        old_ns, old = r.choice(olds)
        new_ns = r.choice([ns for ns in m.roots])
        op = {'op': 'add_link', 'old_ns': old_ns, 'old': old, 'new_ns': new_ns}
        if new_ns == 'iso':
            parent = self._pick_dir('iso', 7 if not (m.rr or m.cfg['level'] == 4) else None)
            if parent is None:
                return None
            nm = self._new_iso_name(parent, False)
            if old_ns == 'iso' and r.random() < 0.35:
                # the same identifier in another directory: two records that differ in nothing but their parent
                same = M.split(old)[1]
                if M._valid_new(m, 'iso', M.join(parent, same)):
                    nm = same
            if nm is None:
                return None
            op['new'] = M.join(parent, nm)
            if m.rr:
                rn = self._new_rr_name(parent)
                if old_ns == 'iso' and r.random() < 0.5:
                    orr = m.get('iso', old).rr
                    if orr and m.rr_free(parent, orr):
                        rn = orr
                if rn is None:
                    return None
                op['rr'] = rn
        else:
            parent = self._pick_dir(new_ns)
            nm = self._new_uni_name(new_ns, parent, 64 if new_ns == 'joliet' else 120)
            if old_ns == new_ns and r.random() < 0.35:
                same = M.split(old)[1]
                if M._valid_new(m, new_ns, M.join(parent, same)):
                    nm = same
            if nm is None:
                return None
            op['new'] = M.join(parent, nm)
        return op

    def g_rm_link(self):
        m = self.m
        cands = []
        for ns in m.roots:
            for p, n in m.iter_ns(ns):
                if n.kind == 'file' and not (ns == 'udf' and n.noinode):
                    if n.blob == 'cat':
                        # a name of the boot catalog may be unlinked like any other name
                        if self.ra.random() < 0.5:
                            cands.append((ns, p))
                        continue
                    if not M.hide_ok(m, n):
                        continue
                    cands.append((ns, p))
                elif n.kind == 'symlink' and ns == 'udf':
                    cands.append((ns, p))
        if not cands:
            return None
        ns, p = self.ra.choice(cands)
        return {'op': 'rm_link', 'ns': ns, 'path': p}

    def g_add_symlink(self):
        m = self.m
        r = self.ra
        flavours = []
        if m.rr:
            flavours.append('rr')
        if m.has('udf'):
            flavours.append('udf')
        if not flavours:
            return None
        fl = r.choice(flavours)
        op = {'op': 'add_symlink'}
        if fl == 'rr' or (m.rr and m.has('udf') and r.random() < 0.3):
            parent = self._pick_dir('iso')
            nm = self._new_iso_name(parent, False, long_ok=False)
            rn = self._new_rr_name(parent)
            if nm is None or rn is None:
                return None
            op['iso'] = M.join(parent, nm)
            op['rr'] = rn
            op['target'] = self.names.symlink_target()
            if m.has('joliet') and r.random() < 0.4:
                jp = self._pick_dir('joliet')
                jn = self._new_uni_name('joliet', jp, 64)
                if jn is None:
                    return None
                op['joliet'] = M.join(jp, jn)
        if fl == 'udf':
            up = self._pick_dir('udf')
            un = self._new_uni_name('udf', up, 120)
            if un is None:
                return None
            op['udf'] = M.join(up, un)
            # a UDF path component holds at most 254 identifier bytes (L_CI is one byte)
            t = self.names.symlink_target(maxcomp=254)
            op['udf_target'] = t
            if 'rr' not in op and not m.rr and r.random() < 0.5:
                parent = self._pick_dir('iso', 7 if m.cfg['level'] != 4 else None)
                if parent is not None and not (m.cfg['level'] != 4 and m.depth(parent) >= 7):
                    nm = self._new_iso_name(parent, False)
                    if nm is not None:
                        op['iso'] = M.join(parent, nm)
                        if m.has('joliet') and r.random() < 0.5:
                            jp = self._pick_dir('joliet')
                            jn = self._new_uni_name('joliet', jp, 64)
                            if jn is not None:
                                op['joliet'] = M.join(jp, jn)
        return op

    def g_hide(self):
        m = self.m
        r = self.ra
        nss = ['iso'] + (['joliet'] if m.has('joliet') else []) + (['rr'] if m.rr else [])
        ns = r.choice(nss)
        src = 'iso' if ns == 'rr' else ns
        cands = [(p, n) for p, n in m.iter_ns(src) if not n.reloc]      # which record of a relocated directory carries the flag is not specified
        if not cands:
            return None
        p, n = r.choice(cands)
        if ns == 'rr':
            # translate to the rock ridge path of the same entry
            comps = p.split('/')[1:]
            node = m.roots['iso']
            rp = ''
            for c in comps:
                node = node.children[c]
                rp += '/' + node.rr
            return {'op': 'hide', 'ns': 'iso', 'via': 'rr', 'rrpath': rp, 'path': p, 'on': not n.hidden}
        return {'op': 'hide', 'ns': ns, 'path': p, 'on': not n.hidden}

    def _boot_candidates(self):
        m = self.m
        out = []
        for p, n in m.iter_ns('iso'):
            if n.kind == 'file' and isinstance(n.blob, int) and m.blobs[n.blob].length > 0:
                out.append((p, n))
        return out

    def g_add_eltorito(self):
        m = self.m
        r = self.ra
        if m.eltorito and len(m.eltorito['entries']) >= 32:
            return None
        cands = self._boot_candidates()
        if m.eltorito:
            used = m.eltorito_blobs()
            if r.random() < 0.8:          # otherwise: a further entry for an image that already has one (BIOS + EFI entry on one file)
                cands = [(p, n) for p, n in cands if n.blob not in used]
        if not cands:
            return None
        p, n = r.choice(cands)
        b = m.blobs[n.blob]
        op = {'op': 'add_eltorito', 'boot': p, 'media': 'noemul', 'platform': r.choice((0, 0, 0, 1, 2, 0xef)),
              'bootable': r.random() < 0.85, 'load_seg': r.choice((0, 0, 0x7c0, 0x1000)), 'efi': False, 'bit': False}
        has_mbr = any(off == 446 for off, h in b.overlays)
        if has_mbr and r.random() < 0.7:
            op['media'] = 'hdemul'
        elif b.length in (1228800, 1474560, 2949120) and r.random() < 0.8:
            op['media'] = 'floppy'
        elif r.random() < 0.4:
            op['load_size'] = r.choice((1, 4, 4, 8, 100))
        if any(off == 0x40 for off, h in b.overlays) and not m.eltorito and r.random() < 0.7:
            op['load_size'] = 4       # what isohybrid requires of the initial entry
        if r.random() < 0.3 and b.length >= 9 and not b.bit:
            op['bit'] = True
        if m.eltorito:
            op['efi'] = r.random() < 0.5
        else:
            # catalog names
            if r.random() < 0.5:
                parent = self._pick_dir('iso', 7 if not (m.rr or m.cfg['level'] == 4) else None)
                if parent is None or (not (m.rr or m.cfg['level'] == 4) and m.depth(parent) >= 7):
                    parent = '/'
                nm = self._new_iso_name(parent, False, long_ok=False)
                if nm is None:
                    return None
                op['cat'] = M.join(parent, nm)
                if m.rr:
                    rn = self._new_rr_name(parent)
                    if rn is None:
                        return None
                    op['rr_cat'] = rn
            else:
                if not m.free('iso', '/BOOT.CAT;1') or any(k.split(';')[0] == 'BOOT.CAT' for k in m.roots['iso'].children):
                    return None
                if m.rr and not m.rr_free('/', 'boot.cat'):
                    return None
            for ns, key in (('joliet', 'joliet_cat'), ('udf', 'udf_cat')):
                if m.has(ns):
                    if r.random() < 0.5:
                        parent = self._pick_dir(ns)
                        nm = self._new_uni_name(ns, parent, 64)
                        if nm is None:
                            return None
                        op[key] = M.join(parent, nm)
                    elif not m.free(ns, '/boot.cat'):
                        return None
        return op

    def g_rm_eltorito(self):
        if not self.m.eltorito:
            return None
        return {'op': 'rm_eltorito'}

    def g_add_isohybrid(self):
        m = self.m
        r = self.ra
        if not m.eltorito or m.hybrid:
            return None
        e0 = m.eltorito['entries'][0]
        b = m.blobs.get(e0['blob'])
        if b is None or e0.get('load_size') != 4:
            return None
        if not any(off == 0x40 and bytes.fromhex(h)[:4] == b'\xfb\xc0\x78\x70' for off, h in b.overlays):
            return None
        op = {'op': 'add_isohybrid', 'part_entry': r.choice((1, 1, 2, 3, 4)), 'mbr_id': r.choice((None, r.getrandbits(32))),
              'part_offset': r.choice((0, 0, 0, 1, 16)), 'sectors': r.choice((32, 32, 63, 1, r.randint(1, 63))),
              'heads': r.choice((64, 64, 255, 1, r.randint(1, 256))), 'part_type': r.choice((None, None, 0x17, 0x83, 0)),
              'mac': False, 'efi': None}
        big = [o for o in (300, 700, 2000) if o * 512 * 1.25 <= m.stored_bytes()]
        if big and r.random() < 0.5:
            # a start beyond cylinder 255 of a small geometry: the two high cylinder bits live in the sector byte
            op['part_offset'] = r.choice(big)
            op['heads'], op['sectors'] = r.choice(((1, 1), (2, 3), (1, 2), (2, 1)))
        has_efi = any(e.get('efi') for e in m.eltorito['entries'][1:])
        if has_efi and r.random() < 0.7:
            op['efi'] = True
            op['part_type'] = r.choice((None, 0))
            if r.random() < 0.4 and len([e for e in m.eltorito['entries'][1:] if e.get('efi')]) >= 2:
                op['mac'] = True
        if op.get('efi') and op['part_entry'] == 2:
            op['part_entry'] = 1
        if op.get('mac') and op['part_entry'] == 3:
            op['part_entry'] = 4
        return op

    def g_rm_isohybrid(self):
        if not self.m.hybrid:
            return None
        return {'op': 'rm_isohybrid'}

    def g_dup_pvd(self):
        if self.m.pvd_dups >= 3:
            return None
        if (self.m.has('udf') or self.m.eltorito) and self.ra.random() < 0.9:
            # known findings (duplicate PVD + UDF anchors / El Torito sector 17):
            # still generated, but rarely, so they do not starve the runs behind them
            return None
        return {'op': 'dup_pvd'}

    def g_restart(self):
        # 'reuse': close() and open the written image with the *same* PyCdlib object (documented as allowed)
        if self.ra.random() < 0.4:
            # half of them after the object has seen (and been asked about every name of) a different image
            return {'op': 'restart', 'reuse': self.ra.choice((True, 'decoy'))}
        return {'op': 'restart'}

    def g_re_add(self):
        """Re-add a name that existed and was removed (must be accepted), as a file or as a directory."""
        m = self.m
        r = self.ra
        cands = [(ns, p, k) for ns, p, k in m.removed_names if ns in m.roots and m.free(ns, p) and M._valid_new(m, ns, p)]
        if not cands:
            return None
        ns, p, kind = r.choice(cands)
        as_dir = (kind == 'dir') if r.random() < 0.6 else (kind != 'dir')
        if as_dir:
            op = {'op': 'add_dir', ns: p}
        else:
            op = {'op': 'add_fp', 'blob': self.next_blob, 'len': self._size(), ns: p, 'route': 'fp'}
        if ns == 'iso':
            nm = p.rsplit('/', 1)[1]
            if as_dir and (';' in nm or '.' in nm) and m.cfg['level'] < 4:
                return None
            if not as_dir and m.cfg['level'] < 4 and '.' not in nm and ';' not in nm and len(nm) > 8 and m.cfg['level'] == 1:
                return None
            if m.rr:
                rn = self._new_rr_name(M.split(p)[0])
                old_rr = getattr(m, 'removed_rr', {}).get(p)
                if old_rr and r.random() < 0.75:
                    # the same Rock Ridge path as before (whatever was remembered about it must be gone), or one that is a
                    # byte longer or shorter (its continuation area is the freed one plus or minus one byte)
                    cand = r.choice((old_rr, old_rr, old_rr, old_rr + 'x', old_rr + 'x', old_rr[:-1] or old_rr, old_rr + 'xy'))
                    if len(cand.encode('utf-8')) <= 250 and cand not in ('.', '..') and m.rr_free(M.split(p)[0], cand):
                        rn = cand
                if rn is None:
                    return None
                op['rr'] = rn
        if not as_dir:
            self.next_blob += 1
        op['_readd'] = True
        return op

    def _mass(self, isdir):
        """Macro-op: many siblings in one parent, so that directory extents, UDF FID areas and
        path tables cross their sector boundaries (1 -> 2 -> n sectors)."""
        m = self.m
        r = self.ra
        n = r.choice((12, 20, 30, 45, 70)) if r.random() < 0.93 else r.choice((150, 300))
        nss = self._targets()
        parents = {}
        for ns in nss:
            p = self._pick_dir(ns, self._iso_maxdepth_for_dir() if ns == 'iso' else self.maxdepth)
            if p is None:
                return None
            if ns == 'iso' and not (m.rr or m.cfg['level'] == 4) and m.depth(p) >= 7:
                return None
            parents[ns] = p
        out = []
        used = {ns: set(m.get(ns, parents[ns]).children) for ns in nss}
        used_rr = {ch.rr for ch in m.get('iso', parents['iso']).children.values()} if 'iso' in nss else set()
        lvl = m.cfg['level']
        for i in range(n):
            op = {'op': 'add_dir'} if isdir else {'op': 'add_fp', 'blob': self.next_blob, 'len': r.choice((0, 1, 100, 2048)), 'route': 'fp'}
            ok = True
            for ns in nss:
                if ns == 'iso':
                    stem = ('D%04d' if isdir else 'F%04d') % i
                    if lvl >= 2 and r.random() < 0.5:
                        stem += ''.join(r.choice(DCHARS) for _ in range(r.choice((3, 10, 20))))
                    stem = stem[:8] if lvl == 1 else stem[:30]
                    nm = stem if isdir else stem + '.;1'
                    if nm in used[ns] or any(k.split(';')[0] == nm.split(';')[0] for k in used[ns]):
                        ok = False
                        break
                    used[ns].add(nm)
                    op['iso'] = M.join(parents[ns], nm)
                    if m.rr:
                        rn = 'm%d-%s' % (i, ''.join(r.choice(RRCHARS) for _ in range(r.choice((0, 4, 40, 120)))))
                        if rn in used_rr:
                            ok = False
                            break
                        used_rr.add(rn)
                        op['rr'] = rn
                else:
                    nm = ('n%d ' % i) + ''.join(r.choice(RRCHARS + UNI_BMP) for _ in range(r.choice((0, 5, 20, 40))))
                    nm = nm[:60]
                    while len(nm.encode('utf-8')) > 64:
                        nm = nm[:-1]
                    if nm in used[ns] or nm in ('.', '..'):
                        ok = False
                        break
                    used[ns].add(nm)
                    op[ns] = M.join(parents[ns], nm)
            if not ok:
                continue
            if not isdir:
                self.next_blob += 1
            out.append(op)
        return out or None

    def g_chain_dirs(self):
        """Macro-op: a chain of nested directories below the deepest directory there is, so that
        histories reach the depth limits (8 levels; Rock Ridge relocation at logical depth 8 and 16)."""
        m = self.m
        r = self.ra
        nss = self._targets()
        out = []
        cur = {}
        for ns in nss:
            lim = self._iso_maxdepth_for_dir() if ns == 'iso' else self.maxdepth
            dirs = [d for d in m.dirs(ns) if m.depth(d) < lim]
            if not dirs:
                return None
            deepest = max(m.depth(d) for d in dirs)
            cur[ns] = r.choice([d for d in dirs if m.depth(d) >= deepest - 1])
        k = r.choice((2, 3, 5, 8, 9))
        lvl = m.cfg['level']
        for i in range(k):
            op = {'op': 'add_dir'}
            for ns in nss:
                lim = self._iso_maxdepth_for_dir() if ns == 'iso' else self.maxdepth
                if m.depth(cur[ns]) + (1 if i else 0) > lim:
                    continue
                if ns == 'iso':
                    existing = m.get('iso', cur[ns])
                    taken = set(existing.children) if existing is not None else set()
                    nm = r.choice(('C%d' % i, 'CH%02d' % i, 'SAME', 'DEEP'))
                    if nm in taken:
                        nm = 'C%d%s' % (i, ''.join(r.choice(DCHARS) for _ in range(3)))
                    if nm in taken:
                        continue
                    if m.depth(cur[ns]) >= lim:
                        continue
                    op['iso'] = M.join(cur[ns], nm)
                    if m.rr:
                        used_rr = {ch.rr for ch in existing.children.values()} if existing is not None else set()
                        rn = r.choice(('c%d' % i, 'same', 'deep-%d' % i))
                        if rn in used_rr:
                            rn = 'c%d-%d' % (i, r.randint(0, 999999))
                        op['rr'] = rn
                else:
                    existing = m.get(ns, cur[ns])
                    taken = set(existing.children) if existing is not None else set()
                    nm = r.choice(('c%d' % i, 'same', 'deep %d' % i))
                    if nm in taken:
                        nm = 'c%d-%d' % (i, r.randint(0, 999999))
                    if m.depth(cur[ns]) >= lim:
                        continue
                    op[ns] = M.join(cur[ns], nm)
            if len(op) == 1:
                break
            out.append(op)
            for ns in nss:
                if ns in op:
                    cur[ns] = op[ns]
        if out and m.rr and any(o.get('iso') and m.relocates(o['iso']) for o in out) and not m.rr_moved and r.random() < 0.35:
            # the chain is about to create the relocation directory: give it other names first
            pre = self.g_set_relocated_name()
            if pre is not None:
                out.insert(0, pre)
        return out or None

    def g_shared_hidden_boot(self):
        """Macro-op: one boot image used by two El Torito entries (BIOS and EFI), whose only name is then unlinked: after a
        restart the image is known through the catalog alone, and both entries must still be the same content."""
        m = self.m
        r = self.ra
        if m.eltorito and len(m.eltorito['entries']) >= 30:
            return None
        parent = self._pick_dir('iso', 7 if not (m.rr or m.cfg['level'] == 4) else None)
        if parent is None:
            return None
        nm = self._new_iso_name(parent, False, long_ok=False)
        if nm is None:
            return None
        op = {'op': 'add_fp', 'blob': self.next_blob, 'len': r.choice((2048, 4096, 2049, 10000)), 'route': 'fp', 'iso': M.join(parent, nm)}
        if m.rr:
            rn = self._new_rr_name(parent)
            if rn is None:
                return None
            op['rr'] = rn
        self.next_blob += 1
        e1 = {'op': 'add_eltorito', 'boot': op['iso'], 'media': 'noemul', 'platform': 0, 'bootable': True, 'load_seg': 0, 'efi': False, 'bit': r.random() < 0.4}
        e2 = dict(e1, efi=True, platform=0xef, bit=False)
        return [op, e1, e2, {'op': 'rm_link', 'ns': 'iso', 'path': op['iso']}]

    def g_twin_links(self):
        """Macro-op: one content under the same leaf name in two directories of one namespace, made in the same second (the two
        records then differ in nothing but their parent), a restart, one of the two names unlinked, another file added."""
        m = self.m
        r = self.ra
        ns = r.choice([n_ for n_ in ('iso', 'joliet') if n_ in m.roots])
        lim = (7 if not (m.rr or m.cfg['level'] == 4) else None) if ns == 'iso' else None
        d1 = self._pick_dir(ns, lim)
        d2 = self._pick_dir(ns, lim)
        out = []
        if d1 is None or d2 is None:
            return None
        if d1 == d2:
            nm = self._new_iso_name('/', True) if ns == 'iso' else self._new_uni_name(ns, '/', 20)
            if nm is None or (ns == 'iso' and not M._valid_new(m, 'iso', M.join('/', nm), True)):
                return None
            mk = {'op': 'add_dir', ns: M.join('/', nm)}
            if ns == 'iso' and m.rr:
                rn = self._new_rr_name('/')
                if rn is None:
                    return None
                mk['rr'] = rn
            out.append(mk)
            d2 = mk[ns]
        leaf = self._new_iso_name(d1, False, long_ok=False) if ns == 'iso' else self._new_uni_name(ns, d1, 40)
        if leaf is None or (m.get(ns, d2) is not None and leaf in m.get(ns, d2).children):
            return None
        first = {'op': 'add_fp', 'blob': self.next_blob, 'len': r.choice((1, 100, 2048, 2049, 6000)), 'route': 'fp', ns: M.join(d1, leaf), '_same_instant': True}
        self.next_blob += 1
        if ns != 'iso' and r.random() < 0.5:
            p0 = self._pick_dir('iso', 7 if not (m.rr or m.cfg['level'] == 4) else None)
            n0 = self._new_iso_name(p0, False, long_ok=False) if p0 is not None else None
            if n0 is not None:
                first['iso'] = M.join(p0, n0)
        rr1 = rr2 = None
        if 'iso' in first and m.rr:
            rr1 = self._new_rr_name(M.split(first['iso'])[0])
            if rr1 is None:
                return None
            first['rr'] = rr1
        link = {'op': 'add_link', 'old_ns': ns, 'old': first[ns], 'new_ns': ns, 'new': M.join(d2, leaf), '_same_instant': True}
        if ns == 'iso' and m.rr:
            link['rr'] = rr1 if r.random() < 0.6 else (self._new_rr_name(d2) or rr1)
        out += [first, link]
        if r.random() < 0.7:
            out.append({'op': 'restart'})
        out.append({'op': 'rm_link', 'ns': ns, 'path': r.choice((first[ns], link['new']))})
        extra = self.g_add_fp()
        if extra is not None:
            out.append(extra)
        return out

    def g_mass_rm_dirs(self):
        """Macro-op: most of the empty directories of a crowded parent go away again, so that directory extents and the
        path tables shrink back over their sector (and 4 KiB) boundaries."""
        m = self.m
        r = self.ra
        cands = []
        for ns in m.roots:
            for p, n in [('/', m.roots[ns])] + [(p_, n_) for p_, n_ in m.iter_ns(ns) if n_.kind == 'dir']:
                empties = [nm for nm, ch in n.children.items() if ch.kind == 'dir' and not ch.children]
                if len(empties) >= 10:
                    cands.append((ns, p, empties))
        if not cands:
            return None
        best = r.choice(cands)
        ns, p, empties = best
        keep = r.choice((0, 1, 3, len(empties) // 2))
        r.shuffle(empties)
        return [{'op': 'rm_dir', ns: M.join(p, nm)} for nm in empties[keep:]]

    def g_ptr_cycle(self):
        """Macro-op: enough directories to push the path tables over 4 KiB (they then take two more sectors each), possibly a
        duplicate PVD in between, and most of them removed again so that the tables shrink back."""
        m = self.m
        r = self.ra
        if any(len(n.children) > 200 for _, n in m.iter_ns('iso') if n.kind == 'dir') or len(m.roots['iso'].children) > 200:
            return None
        parent = self._pick_dir('iso', 6 if not (m.rr or m.cfg['level'] == 4) else None)
        if parent is None or m.relocates(M.join(parent, 'X')):
            return None
        pn = m.get('iso', parent)
        taken = {k.split(';')[0] for k in pn.children}
        used_rr = {ch.rr for ch in pn.children.values()}
        n = r.choice((300, 330, 420))
        out = []
        for i in range(n):
            nm = 'P%04d' % i
            if nm in taken:
                return None
            op = {'op': 'add_dir', 'iso': M.join(parent, nm)}
            if m.rr:
                rn = 'p%04d' % i
                if rn in used_rr:
                    return None
                op['rr'] = rn
            out.append(op)
        k = r.random()
        dups_ok = self.w.get('dup_pvd', 0) > 0 and m.pvd_dups < 3      # profiles that keep duplicate PVDs out keep them out here too
        if k < 0.5 and dups_ok:
            out.append({'op': 'dup_pvd'})
        elif k < 0.65 and dups_ok:
            out.insert(0, {'op': 'dup_pvd'})
        if r.random() < 0.3:
            out.append({'op': 'restart'})
        keep = r.choice((0, 5, 40))
        for op in out[keep:n]:
            if op['op'] == 'add_dir':
                out.append({'op': 'rm_dir', 'iso': op['iso']})
        return out

    def g_recreate_dir(self):
        """Macro-op: empty a small directory, remove it, create it again under the same path and put entries back under their
        old full paths - whatever the object remembered about the old directory (parent lookups, records) must be gone."""
        m = self.m
        r = self.ra
        used = m.eltorito_blobs() if m.eltorito else set()
        cands = []
        for p, n in m.iter_ns('iso'):
            if n.kind != 'dir' or p == '/' or not (1 <= len(n.children) <= 3):
                continue
            ok = True
            for ch in n.children.values():
                if ch.kind == 'dir' and ch.children:
                    ok = False
                if ch.kind == 'file' and (not isinstance(ch.blob, int) or ch.blob in used or ch.noinode):
                    ok = False
            if ok:
                cands.append((p, n))
        if not cands:
            return None
        p, n = r.choice(cands)
        out = []
        kids = sorted(n.children.items())
        for nm, ch in kids:
            cp = M.join(p, nm)
            if ch.kind == 'dir':
                out.append({'op': 'rm_dir', 'iso': cp})
            else:
                out.append({'op': 'rm_link', 'ns': 'iso', 'path': cp})
        out.append({'op': 'rm_dir', 'iso': p})
        again = {'op': 'add_dir', 'iso': p}
        if m.rr:
            again['rr'] = n.rr
            if n.mode is not None and r.random() < 0.5:
                again['mode'] = n.mode
        out.append(again)
        for nm, ch in kids:
            if r.random() < 0.25:
                continue
            cp = M.join(p, nm)
            if ch.kind == 'dir':
                op = {'op': 'add_dir', 'iso': cp}
            elif ch.kind == 'file':
                op = {'op': 'add_fp', 'blob': self.next_blob, 'len': r.choice((1, 100, 2048, 2049)), 'route': 'fp', 'iso': cp}
                self.next_blob += 1
            else:
                continue
            if m.rr:
                op['rr'] = ch.rr
            op['_readd'] = True
            out.append(op)
        return out

    def g_set_relocated_name(self):
        """set_relocated_name(): the relocation directory of a Rock Ridge image gets other names than RR_MOVED / rr_moved
        the next time it is created (first relocation of this generation, or after the last relocated directory went)."""
        m = self.m
        if not m.rr or m.rr_moved_name is not None or m.cfg['level'] == 4:
            return None
        nm = self._new_iso_name('/', True)
        rn = self._new_rr_name('/')
        if nm is None or rn is None:
            return None
        return {'op': 'set_relocated_name', 'name': nm.rstrip('.'), 'rr': rn}

    def g_hybrid_setup(self):
        """Macro-op: everything an isohybrid image needs in one go - an isolinux-shaped boot image as Initial Entry, optionally
        one or two EFI images, and add_isohybrid (with EFI / Mac support when the images are there).  Single ops reach this
        state too, but only in one history in a few hundred."""
        m = self.m
        r = self.ra
        if m.eltorito or m.hybrid:
            return None
        parent = self._pick_dir('iso', 7 if not (m.rr or m.cfg['level'] == 4) else None)
        if parent is None:
            return None
        out = []
        taken = set()

        def boot_file(size, overlays):
            for _ in range(6):
                nm = self._new_iso_name(parent, False, long_ok=False)
                if nm is not None and nm not in taken and nm.split(';')[0] not in {t.split(';')[0] for t in taken}:
                    break
            else:
                return None
            taken.add(nm)
            op = {'op': 'add_fp', 'blob': self.next_blob, 'len': size, 'route': 'fp', 'iso': M.join(parent, nm), 'overlays': overlays}
            if m.rr:
                for _ in range(6):
                    rn = self._new_rr_name(parent)
                    if rn is not None and rn not in {o.get('rr') for o in out}:
                        break
                else:
                    return None
                op['rr'] = rn
            self.next_blob += 1
            return op
        b0 = boot_file(r.choice((2048, 4096, 8192, 20480)), [[0x40, 'fbc07870']])
        if b0 is None:
            return None
        b0['bootkind'] = 'isolinux'
        out.append(b0)
        out.append({'op': 'add_eltorito', 'boot': b0['iso'], 'media': 'noemul', 'platform': 0, 'bootable': True, 'load_seg': 0, 'efi': False,
                    'bit': r.random() < 0.4, 'load_size': 4})
        n_efi = r.choice((0, 1, 1, 2))
        for _ in range(n_efi):
            if r.random() < 0.25:
                boot = b0['iso']           # the EFI entry boots the file of the Initial Entry
            else:
                be = boot_file(r.choice((512, 2048, 4096, 6000)), [])
                if be is None:
                    return None
                out.append(be)
                boot = be['iso']
            out.append({'op': 'add_eltorito', 'boot': boot, 'media': 'noemul', 'platform': 0xef, 'bootable': True, 'load_seg': 0, 'efi': True, 'bit': False})
        hy = {'op': 'add_isohybrid', 'part_entry': r.choice((1, 1, 4)), 'mbr_id': r.choice((None, r.getrandbits(32))),
              'part_offset': r.choice((0, 0, 1, 16)), 'sectors': r.choice((32, 63)), 'heads': r.choice((64, 255)), 'part_type': None,
              'mac': False, 'efi': None}
        big = [o for o in (300, 700, 2000) if o * 512 * 1.25 <= m.stored_bytes() + sum(o_.get('len', 0) for o_ in out if o_['op'] == 'add_fp')]
        if big and r.random() < 0.5:
            hy['part_offset'] = r.choice(big)
            hy['heads'], hy['sectors'] = r.choice(((1, 1), (2, 3), (1, 2), (2, 1)))
        if n_efi >= 1 and r.random() < 0.8:
            hy['efi'] = True
            if n_efi >= 2 and r.random() < 0.5:
                hy['mac'] = True
        out.append(hy)
        return out

    def g_mass_eltorito(self):
        """Macro-op: boot files and El Torito entries until the catalog is (nearly) full: an Initial Entry and 31 sections
        fill its block to the last byte."""
        m = self.m
        r = self.ra
        have = len(m.eltorito['entries']) if m.eltorito else 0
        target = r.choice((30, 31, 32, 32))
        if have >= target:
            return None
        parent = self._pick_dir('iso', 7 if not (m.rr or m.cfg['level'] == 4) else None)
        if parent is None:
            return None
        out = []
        taken = set(m.get('iso', parent).children)
        used_rr = {ch.rr for ch in m.get('iso', parent).children.values()}
        for i in range(target - have):
            nm = 'BT%02d.;1' % i
            if nm in taken or any(k.split(';')[0] == nm.split(';')[0] for k in taken):
                return None
            op = {'op': 'add_fp', 'blob': self.next_blob, 'len': r.choice((1, 512, 2048, 2049)), 'route': 'fp', 'iso': M.join(parent, nm)}
            if m.rr:
                rn = 'bt%02d' % i
                if rn in used_rr:
                    return None
                op['rr'] = rn
            self.next_blob += 1
            out.append(op)
            eo = {'op': 'add_eltorito', 'boot': op['iso'], 'media': 'noemul', 'platform': r.choice((0, 0, 0xef)), 'bootable': r.random() < 0.8,
                  'load_seg': 0, 'efi': r.random() < 0.3, 'bit': False}
            if not m.eltorito and i == 0:
                eo['efi'] = False
            out.append(eo)
        return out

    def g_mass_dirs(self):
        return self._mass(True)

    def g_mass_files(self):
        return self._mass(False)
