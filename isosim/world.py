"""World: the single owner of every random choice, the simulated clock, the
entropy source and the seam installation into pycdlib's modules.

No hook inside /repo is needed: pycdlib reaches the clock through the module
attribute ``time`` of five modules, entropy through ``random``/``uuid`` of
two; we replace those attributes with shims while a run is active.
"""
import functools
import hashlib
import importlib
import os
import random
import sys
import time as _rt
import uuid as _ru

REPO = os.environ.get('VERIF_REPO', '/repo')


def ensure_repo_on_path():
    """Checks always run the *current working tree* of the repository."""
    if sys.path[0] != REPO:
        sys.path.insert(0, REPO)
    os.environ['PYCDLIB_VERIF'] = '1'      # the guard of the one hook in /repo (multi-extent threshold); see MANIFEST.hooks
    import pycdlib  # noqa
    here = os.path.realpath(os.path.dirname(pycdlib.__file__))
    want = os.path.realpath(os.path.join(REPO, 'pycdlib'))
    if here != want:
        raise RuntimeError('pycdlib imported from %s, expected %s' % (here, want))
    import logging
    logging.disable(logging.CRITICAL)     # pycdlib warns on stderr about odd boot images; never part of an oracle


def hbytes(*parts, size=8):
    m = hashlib.blake2b(digest_size=size)
    for p in parts:
        if isinstance(p, bytes):
            m.update(b'b' + p)
        else:
            m.update(repr(p).encode('utf-8'))
        m.update(b'\x00')
    return m.digest()


def h64(*parts):
    return int.from_bytes(hbytes(*parts), 'big')


def run_seed(verif_seed, prop, index):
    return h64('run', int(verif_seed), str(prop), int(index))


# POSIX TZ rule strings: parsed by glibc itself, no tzdata needed.
TZ_CATALOGUE = [
    'UTC0',
    'EST5EDT,M3.2.0,M11.1.0',
    'PST8PDT,M3.2.0,M11.1.0',
    'CET-1CEST,M3.5.0,M10.5.0/3',
    'EET-2EEST,M3.5.0/3,M10.5.0/4',
    'IST-5:30',
    'NPT-5:45',
    'ACST-9:30ACDT,M10.1.0,M4.1.0/3',
    'AEST-10AEDT,M10.1.0,M4.1.0/3',
    'NZST-12NZDT,M9.5.0,M4.1.0/3',
    '<+1245>-12:45<+1345>,M9.5.0/2:45,M4.1.0/3:45',
    '<+14>-14',
    '<-12>12',
    'NST3:30NDT,M3.2.0,M11.1.0',
    '<-0930>9:30',
    '<+0845>-8:45',
    '<-03>3',
    'HST10',
    '<+13>-13',
    '<+0630>-6:30',
    'JST-9',
]


class SimClock:
    """A float ``now``; every reading is recorded in the current reading set."""

    def __init__(self, now, mode, rng):
        self.now = float(now)
        self.mode = mode          # 'frozen' | 'jitter'
        self.rng = rng
        self.readings = []        # readings of the current op
        self.n_readings = 0
        self.covered = 0.0        # simulated seconds covered (sum of |advances|)
        self.backsteps = 0

    def time(self):
        if self.mode == 'jitter':
            d = self.rng.choice((0.0, 0.0, 0.25, 0.5, 0.75, 1.0, 1.5))
            self.now += d
            self.covered += d
        self.readings.append(self.now)
        self.n_readings += 1
        return self.now

    def advance(self, delta):
        if delta < 0:
            self.backsteps += 1
        self.covered += abs(delta)
        self.now += delta
        if self.now < 1.0:
            self.now = 1.0

    def take_readings(self):
        r, self.readings = self.readings, []
        return r


class TimeShim:
    """Stands in for the ``time`` module inside pycdlib's modules."""
    struct_time = _rt.struct_time

    def __init__(self, clock):
        self._clock = clock

    def time(self):
        return self._clock.time()

    # the conversions are pure functions of (instant, process TZ): delegate
    @staticmethod
    def localtime(t=None):
        if t is None:
            raise RuntimeError('isosim: localtime() without argument reads the real clock')
        return _rt.localtime(t)

    @staticmethod
    def gmtime(t=None):
        if t is None:
            raise RuntimeError('isosim: gmtime() without argument reads the real clock')
        return _rt.gmtime(t)

    @staticmethod
    def strftime(fmt, tm=None):
        if tm is None:
            raise RuntimeError('isosim: strftime() without tm reads the real clock')
        return _rt.strftime(fmt, tm)

    strptime = staticmethod(_rt.strptime)
    mktime = staticmethod(_rt.mktime)

    def __getattr__(self, name):
        raise AttributeError('isosim TimeShim: pycdlib used time.%s, which is not behind the seam' % name)


class RandomShim:
    def __init__(self, rng):
        self._rng = rng
        self.draws = 0

    def getrandbits(self, n):
        self.draws += 1
        return self._rng.getrandbits(n)

    def __getattr__(self, name):
        raise AttributeError('isosim RandomShim: pycdlib used random.%s, which is not behind the seam' % name)


class UuidShim:
    UUID = _ru.UUID

    def __init__(self, rng):
        self._rng = rng
        self.draws = 0

    def uuid4(self):
        self.draws += 1
        return _ru.UUID(int=self._rng.getrandbits(128), version=4)

    def __getattr__(self, name):
        raise AttributeError('isosim UuidShim: pycdlib used uuid.%s, which is not behind the seam' % name)


TIME_MODULES = ('pycdlib.pycdlib', 'pycdlib.headervd', 'pycdlib.udf', 'pycdlib.utils', 'pycdlib.dates')
RANDOM_MODULES = ('pycdlib.isohybrid', 'pycdlib.udf')
UUID_MODULES = ('pycdlib.isohybrid',)
CACHED_METHODS = ('_find_iso_record', '_find_rr_record', '_find_joliet_record', '_find_udf_record')


class World:
    """One run = one World.  ``seed`` is the per-run seed."""

    DEFAULT_MAX_EXTENT = 0xfffff800

    def __init__(self, seed, tz=None, clock0=None, clock_mode=None, cache=None, max_extent=None):
        self.max_extent = max_extent  # multi-extent threshold (pycdlib's guarded hook); None = shipped value
        self.seed = int(seed)
        self._rngs = {}
        env = self.rng('env')
        self.tz = tz if tz is not None else env.choice(TZ_CATALOGUE)
        if clock0 is None:
            clock0 = float(self.pick_instant(env))
        if clock_mode is None:
            clock_mode = 'jitter' if env.random() < 0.3 else 'frozen'
        if cache is None:
            cache = env.choice((1, 2, 8, 256, 256))
        self.cache = cache
        self.clock0 = float(clock0)
        self.clock = SimClock(clock0, clock_mode, self.rng('clockjitter'))
        self.generation = 0
        self.seq = 0                  # global event sequence number
        self._installed = False
        self._saved = []
        self._saved_tz = None
        self.entropy_draws = 0
        self._shims = []

    # -- randomness ------------------------------------------------------
    def rng(self, name):
        r = self._rngs.get(name)
        if r is None:
            r = random.Random(h64('stream', self.seed, name))
            self._rngs[name] = r
        return r

    def next_seq(self):
        self.seq += 1
        return self.seq

    @staticmethod
    def pick_instant(r):
        """An instant in 1971..2098 with mass on calendar edges."""
        k = r.random()
        if k < 0.35:
            return r.randrange(31536000, 4070908800)
        year = r.randrange(1971, 2099)
        import calendar
        if k < 0.55:      # year end +-
            base = calendar.timegm((year, 12, 31, 23, 59, 59))
            return base + r.randrange(-3, 4) + r.choice((0, 0, -43200, 43200, 50400, -50400))
        if k < 0.70:      # leap day
            while not calendar.isleap(year):
                year += 1
                if year > 2096:
                    year = 1972
            base = calendar.timegm((year, 2, 29, 0, 0, 0))
            return base + r.choice((-1, 0, 1, 86399, 86400, 86401)) + r.choice((0, 43200, -43200))
        if k < 0.90:      # around typical DST switch dates (hour precision)
            month, day = r.choice(((3, 8), (3, 14), (3, 25), (3, 31), (4, 1), (4, 7), (9, 24), (9, 30),
                                   (10, 1), (10, 7), (10, 25), (10, 31), (11, 1), (11, 7)))
            base = calendar.timegm((year, month, day, 0, 0, 0))
            return base + r.randrange(-14, 40) * 3600 + r.choice((-1, 0, 1, 1799, 1800, 3599))
        return calendar.timegm((2038, 1, 19, 3, 14, 7)) + r.randrange(-5, 6)

    # -- seams -----------------------------------------------------------
    def install(self):
        if self._installed:
            return
        ensure_repo_on_path()
        self._saved_tz = os.environ.get('TZ')
        os.environ['TZ'] = self.tz
        _rt.tzset()
        tshim = TimeShim(self.clock)
        rshim = RandomShim(self.rng('entropy.%d' % self.generation))
        ushim = UuidShim(self.rng('entropy.uuid.%d' % self.generation))
        self._shims = [rshim, ushim]
        for mn in TIME_MODULES:
            m = importlib.import_module(mn)
            self._saved.append((m, 'time', m.time))
            m.time = tshim
        for mn in RANDOM_MODULES:
            m = importlib.import_module(mn)
            self._saved.append((m, 'random', m.random))
            m.random = rshim
        for mn in UUID_MODULES:
            m = importlib.import_module(mn)
            self._saved.append((m, 'uuid', m.uuid))
            m.uuid = ushim
        # process-global caches: size is a per-run tuning knob, and they start empty
        pm = importlib.import_module('pycdlib.pycdlib')
        for name in CACHED_METHODS:
            f = getattr(pm.PyCdlib, name)
            self._saved.append((pm.PyCdlib, name, f))
            setattr(pm.PyCdlib, name, functools.lru_cache(maxsize=self.cache)(f.__wrapped__))
        dm = importlib.import_module('pycdlib.dates')
        dm.string_to_timestruct.cache_clear()
        # every other memo the library may keep at module or class level starts empty too: a run must not depend on
        # what earlier runs of this worker process happened to look up
        for mn, mod in list(sys.modules.items()):
            if mn == 'pycdlib' or mn.startswith('pycdlib.'):
                for obj in list(vars(mod).values()):
                    if hasattr(obj, 'cache_clear') and callable(getattr(obj, 'cache_clear')):
                        obj.cache_clear()
                    elif isinstance(obj, type) and getattr(obj, '__module__', None) == mn:
                        for sub in list(vars(obj).values()):
                            if hasattr(sub, 'cache_clear') and callable(getattr(sub, 'cache_clear')):
                                sub.cache_clear()
        # tuning knob behind pycdlib's guarded hook: the length at which a file is split into several extents
        if hasattr(pm, '_MAX_EXTENT_LENGTH'):
            self._saved.append((pm, '_MAX_EXTENT_LENGTH', pm._MAX_EXTENT_LENGTH))
            pm._MAX_EXTENT_LENGTH = self.max_extent or self.DEFAULT_MAX_EXTENT
        self._installed = True

    def new_generation(self):
        """A different entropy stream per generation: anything re-drawn
        instead of preserved from disc shows up as a byte difference."""
        self.generation += 1
        if self._installed:
            rshim = RandomShim(self.rng('entropy.%d' % self.generation))
            ushim = UuidShim(self.rng('entropy.uuid.%d' % self.generation))
            for s in self._shims:
                self.entropy_draws += s.draws
            self._shims = [rshim, ushim]
            for mn in RANDOM_MODULES:
                importlib.import_module(mn).random = rshim
            for mn in UUID_MODULES:
                importlib.import_module(mn).uuid = ushim

    def reset_entropy(self, name):
        """Install a named entropy stream from its beginning (replicas of one history
        must see the same random identifiers)."""
        self._rngs.pop('entropy.' + name, None)
        self._rngs.pop('entropy.uuid.' + name, None)
        rshim = RandomShim(self.rng('entropy.' + name))
        ushim = UuidShim(self.rng('entropy.uuid.' + name))
        for s in self._shims:
            self.entropy_draws += s.draws
        self._shims = [rshim, ushim]
        if self._installed:
            for mn in RANDOM_MODULES:
                importlib.import_module(mn).random = rshim
            for mn in UUID_MODULES:
                importlib.import_module(mn).uuid = ushim

    def set_tz(self, tz):
        self.tz = tz
        if self._installed:
            os.environ['TZ'] = tz
            _rt.tzset()

    def uninstall(self):
        if not self._installed:
            return
        for s in self._shims:
            self.entropy_draws += s.draws
        for obj, name, val in reversed(self._saved):
            setattr(obj, name, val)
        self._saved = []
        if self._saved_tz is None:
            os.environ.pop('TZ', None)
        else:
            os.environ['TZ'] = self._saved_tz
        _rt.tzset()
        self._installed = False

    def __enter__(self):
        self.install()
        return self

    def __exit__(self, *a):
        self.uninstall()
        return False

    def env_record(self):
        return {'tz': self.tz, 'clock0': self.clock0, 'clock_mode': self.clock.mode, 'cache': self.cache}
