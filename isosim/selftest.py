"""Sensitivity self-test of the independent decoders (the trusted base of C03-C12, C15, C17).

A few full-featured reference images are mastered by the library under the
simulator; every field the decoders *say they read* (their field maps) is then
damaged, one at a time, and the image decoded again.  A damage counts as seen
when the decoders report a new anomaly or recover a different view (tree,
names, content keys, boot structures) than from the undamaged image.  The
point is not pycdlib: it is that the oracles are not vacuous - a decoder that
reads a field and does nothing with it shows up here as a row with 0 seen.

Run as part of MANIFEST.setup_cmd (a few seconds); exit 1 if the overall rate or
one of the must-see classes falls below its floor."""
import hashlib
import json
import sys
from collections import Counter, defaultdict

from . import world as W
from . import hist as H
from . import dec_iso, dec_susp, dec_udf, dec_boot, decview, alloc

MUST_SEE = ('pvd.space_size', 'dr.extent', 'dr.size', 'dr.len', 'pt.', 'ce.', 'tag.', 'fid.icb', 'fe.info_length', 'ad.', 'pd.', 'gpt.', 'mbr.',
            'eltorito.validation', 'eltorito.rba')
FLOOR_ALL = 0.80
FLOOR_MUST = 0.97


def reference_images():
    """Master a few histories with every extension on; returns [(name, bytes, model)]."""
    W.ensure_repo_on_path()
    from .oracles import c05
    out = []
    want = [('rr+joliet+udf', lambda c: c.get('rr') and c.get('joliet') and c.get('udf')),
            ('hybrid', lambda c: True),
            ('level4', lambda c: c.get('level') == 4)]
    for name, pred in want:
        for i in range(400):
            seed = W.run_seed(77, 'selftest-' + name, i)
            plan = H.generate(seed, c05.PROFILE)
            if not pred(plan['cfg']) or len(plan['ops']) < 8:
                continue
            if name == 'hybrid' and not any(o['op'] == 'add_isohybrid' for o in plan['ops']):
                continue
            grab = {}

            class O(H.Oracle):
                def on_write(self, ctx, disk, wf):
                    grab['data'] = bytes(disk.data)
                    grab['model'] = ctx.model.clone()
            res = H.execute(plan, O())
            if res['status'] == 'ok' and 'data' in grab and len(grab['data']) < 3_000_000:
                if name == 'hybrid' and not grab['model'].hybrid:
                    continue
                out.append((name, grab['data'], grab['model']))
                break
    return out


def observe(data):
    """Everything the decoders recover, as a hashable summary + the anomaly rules + the field map."""
    h = hashlib.blake2b(digest_size=12)
    rules = Counter()
    fields = []
    try:
        img = dec_iso.decode(data)
        fields += img.fields
        sus = None
        for ns, t in sorted(img.trees.items()):
            for p, r in sorted(t.entries.items()):
                h.update(repr((ns, p, r.is_dir, r.extent, r.size, r.flags, len(r.parts or []), r.date)).encode())
            if t.root is not None:
                h.update(repr((ns, t.root.extent, t.root.size, t.vd.pt_size, t.vd.pt_l, t.vd.pt_m, t.vd.space_size, sorted(getattr(t.vd, 'dates', {}).items()))).encode())
        if 'iso' in img.trees:
            sus = dec_susp.SuspDecoder(img, data)
            sus.decode_tree(img.trees['iso'])
            for p, r in sorted(img.trees['iso'].entries.items()):
                i = sus.info.get(id(r))
                if i is not None:
                    h.update(repr((p, i.name, i.mode, getattr(i, 'nlink', None), i.cl, i.re, i.target, getattr(i, 'pl', None))).encode())
            h.update(repr(sorted(sus.all_ce)).encode())
        et = dec_boot.ElTorito(data).decode([(v.sector, v.raw) for v in img.boots])
        fields += getattr(et, 'fields', [])
        h.update(repr((et.present, et.catalog_lba, [sorted(e.items()) for e in et.entries] if et.present else None)).encode())
        hy = dec_boot.Hybrid(data).decode()
        fields += getattr(hy, 'fields', [])
        h.update(repr((hy.present, hy.mbr, hy.parts, hy.gpt, hy.gpt_backup, hy.apm)).encode())
        u = dec_udf.decode(data)
        fields += u.fields
        if u.present:
            for p, e in sorted(u.entries.items()):
                h.update(repr((p, e.kind, e.info_len, e.extents, e.link_count, e.target, e.fe_block)).encode())
            h.update(repr((u.part_start, u.part_len)).encode())
        for a in img.anoms:
            rules[a.rule] += 1
        for a in et.anoms if hasattr(et, 'anoms') else []:
            rules[a.rule] += 1
        for a in getattr(hy, 'anoms', []):
            rules[a.rule] += 1
        for a in u.anoms:
            rules[a.rule] += 1
    except Exception as e:       # a decoder that falls over has certainly noticed
        rules['decoder-exception:' + type(e).__name__] += 1
    return h.hexdigest(), rules, fields


def kind_of(meaning):
    m = str(meaning)
    return m.split('@')[0].split('[')[0]


def run(verbose=True, per_kind=6):
    refs = reference_images()
    if len(refs) < 2:
        print('selftest: could not build reference images')
        return 2
    seen = defaultdict(lambda: [0, 0])
    for name, data, model in refs:
        base_digest, base_rules, fields = observe(data)
        by_kind = defaultdict(list)
        for off, ln, meaning in fields:
            if ln > 0 and off + ln <= len(data):
                by_kind[kind_of(meaning)].append((off, ln))
        for kind, lst in sorted(by_kind.items()):
            lst = sorted(set(lst))
            step = max(1, len(lst) // per_kind)
            for off, ln in lst[::step][:per_kind]:
                ba = bytearray(data)
                ba[off] = (ba[off] + 1) & 0xff          # smallest possible damage: one byte, off by one
                d2, r2, _ = observe(bytes(ba))
                hit = d2 != base_digest or any(r2[k] > base_rules.get(k, 0) for k in r2)
                seen[kind][1] += 1
                if hit:
                    seen[kind][0] += 1
    tot_s = sum(v[0] for v in seen.values())
    tot_n = sum(v[1] for v in seen.values())
    must_s = sum(v[0] for k, v in seen.items() if any(k.startswith(m) for m in MUST_SEE))
    must_n = sum(v[1] for k, v in seen.items() if any(k.startswith(m) for m in MUST_SEE))
    if verbose:
        for k, (s, n) in sorted(seen.items()):
            print('  %-40s %3d/%-3d%s' % (k, s, n, '' if s == n else '   <- not always seen'))
    print('decoder self-test: %d reference images, %d field kinds, %d/%d single-byte damages seen (%.1f%%); must-see classes %d/%d' % (
        len(refs), len(seen), tot_s, tot_n, 100.0 * tot_s / max(1, tot_n), must_s, must_n))
    ok = tot_n > 200 and tot_s / tot_n >= FLOOR_ALL and (must_n == 0 or must_s / must_n >= FLOOR_MUST)
    return 0 if ok else 1


if __name__ == '__main__':
    sys.exit(run('-q' not in sys.argv))
