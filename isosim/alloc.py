"""Allocation map: turns the independent decoders' output into
[(kind, start byte, length, owners)] and checks it (C04, reused by C17)."""
from . import dec_iso, dec_susp, dec_udf, dec_boot

SECTOR = 2048


def up(n):
    return ((n + SECTOR - 1) // SECTOR) * SECTOR


class AllocMap:
    def __init__(self):
        self.objects = {}         # (kind, start, length) -> set(owners)
        self.ce = []              # (start, length, owner)
        self.names_by_extent = {}  # start byte of file data -> set((ns, path))
        self.problems = []        # (rule tuple, detail)
        self.img = None
        self.udf = None
        self.et = None
        self.sus = None

    def add(self, kind, start, length, owner):
        if length <= 0:
            return
        self.objects.setdefault((kind, start, length), set()).add(owner)

    def problem(self, rule, detail):
        self.problems.append((tuple(rule), detail))


def build(data, model=None):
    am = AllocMap()
    img = dec_iso.decode(data)
    am.img = img
    if not img.pvds:
        am.problem(('decode', 'no-pvd'), '')
        return am
    hard = [a for a in img.anoms if not a.rule.startswith('ecma119.9.3/order') and not a.rule.startswith('ecma119.6.7.1/duplicate-pvd-differs')]
    if hard:
        am.problem(('decode', hard[0].rule), repr(hard[0]))
        return am
    am.add('sysarea', 0, 16 * SECTOR, 'system area')
    for vd in img.vds:
        am.add('vd', vd.sector * SECTOR, SECTOR, 'vd@%d' % vd.sector)
    et = dec_boot.ElTorito(data).decode([(v.sector, v.raw) for v in img.boots])
    am.et = et
    cat_start = et.catalog_lba * SECTOR if et.present and et.catalog_lba else None
    if cat_start is not None:
        am.add('eltorito.catalog', cat_start, SECTOR, 'catalog')
    # Rock Ridge first: the placeholder of a relocated directory is a non-directory record whose extent is that directory
    sus = dec_susp.SuspDecoder(img, data)
    n0 = len(img.anoms)
    if 'iso' in img.trees:
        sus.decode_tree(img.trees['iso'])
    am.sus = sus
    susp_anoms = img.anoms[n0:]
    placeholders = {k for k, i in sus.info.items() if getattr(i, 'cl', None) is not None}
    for ns, t in img.trees.items():
        if t.root is None:
            continue
        nsec = (t.vd.pt_size + SECTOR - 1) // SECTOR
        am.add('path_table_l', t.vd.pt_l * SECTOR, nsec * SECTOR, 'path table')
        am.add('path_table_m', t.vd.pt_m * SECTOR, nsec * SECTOR, 'path table')
        for d in t.dirs:
            am.add('directory', d.extent * SECTOR, up(d.size), d.path if ns != 'enhanced' else d.path)
        for path, rec in t.entries.items():
            if rec.is_dir or id(rec) in placeholders:
                continue
            for part in (rec.parts or [rec]):
                if part.size == 0:
                    continue
                start = part.extent * SECTOR
                if start == cat_start:
                    continue
                am.add('file', start, up(part.size), 'data')
                if ns != 'enhanced':
                    am.names_by_extent.setdefault(start, set()).add((ns, path))
    # Rock Ridge continuation areas
    for a in susp_anoms:
        if a.rule.startswith('susp.5.1/ce'):
            am.problem(('decode', a.rule), repr(a))
    for block, off, ln, owner in sus.all_ce:
        am.ce.append((block * SECTOR + off, ln, owner))
    # UDF
    u = dec_udf.decode(data)
    am.udf = u
    if u.present:
        for kind, start, ln, owner in u.objects:
            if kind == 'udf.data':
                if start == cat_start:
                    continue
                am.add('file', start, ln, 'data')
                am.names_by_extent.setdefault(start, set()).add(('udf', owner))
            elif kind == 'udf.vrs':
                am.add('udf.vrs', start, ln, owner)
            else:
                am.add(kind, start, ln, owner if kind in ('udf.avdp', 'udf.vds.main', 'udf.vds.reserve', 'udf.lvid', 'udf.fsd', 'udf.fsd-td') else kind)
    # isohybrid: the backup GPT lives in the cylinder padding behind the volume
    hy = dec_boot.Hybrid(data).decode()
    am.hybrid = hy
    if hy.present and hy.gpt_backup is not None:
        gb = hy.gpt_backup
        am.add('hybrid.gpt-backup', gb['ent_lba'] * 512, gb['n'] * gb['esize'] + 512, 'backup GPT')
    # hidden boot files
    if et.present:
        starts = {s for (k, s, l) in am.objects if k == 'file'}
        for i, e in enumerate(et.entries):
            s = e['rba'] * SECTOR
            if s and s not in starts:
                ln = None
                if model is not None and model.eltorito and i < len(model.eltorito['entries']):
                    b = model.blobs.get(model.eltorito['entries'][i]['blob'])
                    if b is not None:
                        ln = b.length
                if ln is None:
                    ln = e['sector_count'] * 512
                am.add('file', s, up(ln), 'data')
    return am


def check(am, data, model=None, hybrid=False):
    """Returns list of (rule tuple, detail)."""
    out = list(am.problems)
    img = am.img
    if not img or not img.pvds:
        return out
    space = img.pvds[0].space_size
    for vd in img.pvds[1:] + [v for v in img.svds if v.kind in ('joliet', 'enhanced')]:
        if vd.space_size != space:
            out.append((('size', 'vds-disagree', vd.kind), '%s says %d, PVD says %d' % (vd.kind, vd.space_size, space)))
    total = space * SECTOR
    if not hybrid:
        if len(data) != total:
            out.append((('size', 'image-length-vs-declared', 'longer' if len(data) > total else 'shorter'), 'image %d bytes, declared %d sectors = %d bytes' % (len(data), space, total)))
    else:
        if len(data) < total:
            out.append((('size', 'image-length-vs-declared', 'shorter'), 'image %d bytes, declared %d' % (len(data), total)))
    # the system area belongs to nobody but the isohybrid structures
    if model is not None and not getattr(model, 'hybrid', None) and not hybrid:
        sysarea = data[:16 * SECTOR]
        if any(sysarea):
            first = next(i for i, b in enumerate(sysarea) if b)
            out.append((('system-area', 'not-zero-without-isohybrid'), 'first non-zero byte at %d' % first))
    # flatten: dedupe identical extents; different kinds on one extent is an overlap
    items = sorted(((s, l, k) for (k, s, l) in am.objects), key=lambda x: (x[0], x[1]))
    prev_end = -1
    prev = None
    for s, l, k in items:
        if s + l > total and k != 'hybrid.gpt-backup':
            out.append((('out-of-bounds', k), '%s at %d..%d, volume ends at %d' % (k, s, s + l, total)))
        if prev is not None and s < prev_end:
            ps, pl, pk = prev
            if (s, l) == (ps, pl) and k == pk:
                pass
            elif k == pk == 'file' and s == ps:
                out.append((('length', 'shared-extent-different-lengths'), 'file data at %d recorded with %d and %d bytes' % (s, pl, l)))
            else:
                out.append((('overlap', '+'.join(sorted((pk, k)))), '%s [%d,%d) overlaps %s [%d,%d)' % (pk, ps, ps + pl, k, s, s + l)))
        if s + l > prev_end:
            prev_end = s + l
            prev = (s, l, k)
    # continuation areas: byte granularity among themselves, sector granularity against everything else
    ce_sectors = {}
    for s, l, owner in am.ce:
        if l:
            ce_sectors.setdefault(s // SECTOR, []).append((s, l, owner))
    for sec, areas in ce_sectors.items():
        for (s, l, k) in items:
            if s <= sec * SECTOR < s + l:
                out.append((('overlap', 'ce+' + k), 'continuation sector %d lies inside %s [%d,%d)' % (sec, k, s, s + l)))
                break
        if (sec + 1) * SECTOR > total:
            out.append((('out-of-bounds', 'ce'), 'continuation sector %d beyond volume' % sec))
    # the UDF partition is an object too: it must end inside the declared volume
    u = am.udf
    if u is not None and u.present and getattr(u, 'part_start', None) is not None and getattr(u, 'part_len', None) is not None:
        if (u.part_start + u.part_len) > space:
            out.append((('out-of-bounds', 'udf.partition'), 'UDF partition [%d,%d) ends behind the volume (%d sectors)' % (u.part_start, u.part_start + u.part_len, space)))
    # sharing iff linked
    if model is not None:
        decoded_groups = {}
        for start, names in am.names_by_extent.items():
            decoded_groups[start] = frozenset(names)
        name_to_start = {}
        for start, names in am.names_by_extent.items():
            for nm in names:
                name_to_start[nm] = start
        for bid, b in model.blobs.items():
            if b.length == 0:
                continue
            names = [nm for nm in model.names_of_blob(bid)]
            starts = {name_to_start.get(nm) for nm in names if nm in name_to_start}
            if len(starts) > 1:
                out.append((('sharing', 'links-not-sharing'), 'names of blob %d at different extents: %r' % (bid, sorted(starts))))
        # two names on one extent must be links to one blob
        for start, names in am.names_by_extent.items():
            blobs = set()
            for ns, path in names:
                n = model.get(ns, path)
                if n is not None and n.kind == 'file' and isinstance(n.blob, int):
                    blobs.add(n.blob)
            if len(blobs) > 1:
                zero = any(model.blobs[b].length == 0 for b in blobs if b in model.blobs)
                out.append((('sharing', 'unlinked-names-share-extent', 'a-zero-length-file-involved' if zero else 'non-empty-files', 'generation=%s' % ('>=2' if model.generation >= 2 else model.generation)),
                            'extent at %d is shared by blobs %r' % (start, sorted(blobs))))
    return out


def check_write_log(am, writes, data):
    """Every (offset,len) written lies inside a decoded object (or is zero fill);
    no byte is written twice except the boot-info-table patch."""
    out = []
    iv = sorted((pos, len(b)) for pos, b in writes if len(b))
    bit_windows = set()
    if am.et is not None and am.et.present:
        for e in am.et.entries:
            bit_windows.add(e['rba'] * SECTOR + 8)
    prev_end = 0
    prev = None
    for pos, ln in iv:
        if pos < prev_end:
            ov_start, ov_end = pos, min(prev_end, pos + ln)
            # the documented patch: 56 bytes at file start + 8
            if not (pos in bit_windows and ln <= 56) and not (prev is not None and prev[0] in bit_windows and prev[1] <= 56):
                out.append((('double-write', classify(am, ov_start)), 'bytes [%d,%d) written twice (writes at %d+%d and %d+%d)' % (
                    ov_start, ov_end, prev[0], prev[1], pos, ln)))
        if pos + ln > prev_end:
            prev_end = pos + ln
            prev = (pos, ln)
    # writes outside every decoded object must be zeros
    spans = sorted((s, s + l) for (k, s, l) in am.objects)
    spans += sorted((s, s + l) for s, l, o in am.ce)
    spans.sort()
    merged = []
    for s, e in spans:
        if merged and s <= merged[-1][1]:
            merged[-1][1] = max(merged[-1][1], e)
        else:
            merged.append([s, e])
    import bisect
    starts = [m[0] for m in merged]
    for pos, b in writes:
        ln = len(b)
        if not ln or not any(b):
            continue
        # portion of [pos,pos+ln) not covered by merged spans
        i = bisect.bisect_right(starts, pos) - 1
        cur = pos
        end = pos + ln
        stray = None
        j = max(i, 0)
        while cur < end:
            if j < len(merged) and merged[j][0] <= cur < merged[j][1]:
                cur = merged[j][1]
                j += 1
                continue
            nxt = merged[j][0] if j < len(merged) and merged[j][0] > cur else (merged[j + 1][0] if j + 1 < len(merged) else end)
            if j < len(merged) and merged[j][1] <= cur:
                j += 1
                continue
            gap_end = min(end, nxt)
            if any(b[cur - pos:gap_end - pos]):
                stray = (cur, gap_end)
                break
            cur = gap_end
        if stray:
            out.append((('stray-write', 'sector-%s' % ('<32' if stray[0] < 32 * SECTOR else 'other')), 'non-zero bytes written at [%d,%d) outside every decoded object' % stray))
            break
    return out


def classify(am, off):
    for (k, s, l) in am.objects:
        if s <= off < s + l:
            return k
    for s, l, o in am.ce:
        if s <= off < s + l:
            return 'ce'
    return 'unmapped'


def orphan_sectors(am, data):
    """Sectors inside the declared volume that no decoded object covers (allocated but referenced by nothing)."""
    img = am.img
    if not img or not img.pvds or am.problems:
        return None
    total = img.pvds[0].space_size
    cover = bytearray(total)
    # mastering programs reserve path tables in units of two sectors: the spare one is slack, not a leak
    for (k, s, l) in list(am.objects):
        if k.startswith('path_table'):
            n = (l // SECTOR + 1) // 2 * 2
            a = s // SECTOR
            cover[a:min(total, a + n)] = b'\x01' * (min(total, a + n) - a)
    for (k, s, l) in am.objects:
        a = s // SECTOR
        b = min(total, (s + l + SECTOR - 1) // SECTOR)
        if a < total:
            cover[a:b] = b'\x01' * (b - a)
    for s, l, o in am.ce:
        a = s // SECTOR
        if a < total:
            cover[a] = 1
    # the sector behind the volume descriptor set terminator (mkisofs' "version descriptor") is reserved
    if img.term_sector is not None and img.term_sector + 1 < total:
        cover[img.term_sector + 1] = 1
    # UDF bridge layout: everything below the first anchor (sector 256) is a fixed, partly reserved region
    if am.udf is not None and am.udf.present:
        cover[:min(total, 257)] = b'\x01' * min(total, 257)
    out = []
    i = 0
    while i < total:
        if not cover[i]:
            j = i
            while j < total and not cover[j]:
                j += 1
            out.append((i, j - i))
            i = j
        else:
            i += 1
    return out
