"""Views recovered by the independent decoders, in the shape of Model.view()."""
from . import observe as O

SECTOR = 2048


def file_bytes(data, rec):
    parts = rec.parts or [rec]
    out = []
    for p in parts:
        start = p.extent * SECTOR
        if p.size and start + p.size > len(data):
            return None
        out.append(data[start:start + p.size])
    return b''.join(out)


def iso_view(img, data, model, ns):
    t = img.trees.get(ns)
    if t is None:
        return None
    res = O.Resolver(model)
    v = {'/': ('dir', False, None)}
    for path, rec in t.entries.items():
        if rec.is_dir:
            v[path] = ('dir', rec.hidden, None)
        else:
            b = file_bytes(data, rec)
            key = ('bad', 'out-of-image') if b is None else res.key(b)
            v[path] = ('file', rec.hidden, key)
    return v


def compare_with_model(img, data, model, nss):
    exp = model.view()
    expected = {}
    observed = {}
    for ns in nss:
        if ns not in exp:
            if ns in img.trees:
                observed[ns] = {}
            continue
        ev = dict(exp[ns])
        if ns == 'iso':
            # symlinks are plain records for an ISO9660 reader; their content key is None in the model
            ev = {p: (e if e[2] is not None or e[0] == 'dir' else (e[0], e[1], ('empty',))) for p, e in ev.items()}
        expected[ns] = ev
        v = iso_view(img, data, model, ns)
        if v is not None:
            observed[ns] = v
    return O.compare_views(expected, observed)
