"""Views recovered by the independent decoders, in the shape of Model.view()."""
from . import observe as O

SECTOR = 2048


def file_bytes(data, rec):
    parts = rec.parts or [rec]
    out = []
    for p in parts:
        start = p.extent * SECTOR
        if p.size and start + p.size > len(data):
            return None
        out.append(data[start:start + p.size])
    return b''.join(out)


def iso_view(img, data, model, ns):
    t = img.trees.get(ns)
    if t is None:
        return None
    res = O.Resolver(model)
    v = {'/': ('dir', False, None)}
    for path, rec in t.entries.items():
        if rec.is_dir:
            v[path] = ('dir', rec.hidden, None)
        else:
            b = file_bytes(data, rec)
            key = ('bad', 'out-of-image') if b is None else res.key(b)
            v[path] = ('file', rec.hidden, key)
    return v


def compare_with_model(img, data, model, nss):
    exp = model.view()
    expected = {}
    observed = {}
    for ns in nss:
        if ns not in exp:
            if ns in img.trees:
                observed[ns] = {}
            continue
        ev = dict(exp[ns])
        if ns == 'iso':
            # symlinks are plain records for an ISO9660 reader; their content key is None in the model
            ev = {p: (e if e[2] is not None or e[0] == 'dir' else (e[0], e[1], ('empty',))) for p, e in ev.items()}
        expected[ns] = ev
        v = iso_view(img, data, model, ns)
        if v is not None:
            observed[ns] = v
    return O.compare_views(expected, observed)


def rr_view(img, data, model, sus):
    """Logical Rock Ridge tree recovered from SUSP/RRIP entries (CL/PL/RE followed)."""
    t = img.trees.get('iso')
    res = O.Resolver(model)
    v = {'/': ('dir', None, None, None)}
    problems = []
    if t is None or t.root is None:
        return v, problems

    def walk(d, path, depth):
        if depth > 64:
            problems.append(('rrip/logical-tree-too-deep', d.off, path))
            return
        for rec in (d.children or [])[2:]:
            info = sus.info.get(id(rec))
            if info is None:
                problems.append(('rrip/record-without-susp', rec.off, rec.path))
                continue
            if info.re:
                continue            # relocated: appears at its logical place through CL
            name = info.name if info.name is not None else rec.ident
            try:
                nm = name.decode('utf-8')
            except UnicodeDecodeError:
                nm = name.decode('latin-1')
            p = (path if path != '/' else '') + '/' + nm
            if p in v:
                problems.append(('rrip/duplicate-logical-name', rec.off, p))
            if info.cl is not None:
                target = t.dir_extents.get(info.cl)
                if target is None:
                    problems.append(('rrip.4.1.5.1/cl-target-not-a-directory', rec.off, 'extent %d' % info.cl))
                    continue
                tinfo = sus.info.get(id(target))
                if tinfo is None or not tinfo.re:
                    problems.append(('rrip.4.1.5.3/cl-target-without-re', rec.off, p))
                # PL of the relocated directory's '..' must point at the logical parent
                ddot = (target.children or [None, None])[1]
                dinfo = sus.info.get(id(ddot)) if ddot is not None else None
                if dinfo is None or dinfo.pl != d.extent:
                    problems.append(('rrip.4.1.5.2/pl-not-logical-parent', rec.off, p))
                mode = tinfo.mode if tinfo is not None and tinfo.has_px else info.mode
                v[p] = ('dir', None, None, mode)
                walk(target, p, depth + 1)
            elif rec.is_dir:
                v[p] = ('dir', None, None, info.mode)
                walk(rec, p, depth + 1)
            elif info.is_symlink:
                try:
                    tg = info.target.decode('utf-8')
                except UnicodeDecodeError:
                    tg = info.target.decode('latin-1')
                v[p] = ('symlink', None, tg, info.mode)
            else:
                b = file_bytes(data, rec)
                key = ('bad', 'out-of-image') if b is None else res.key(b)
                v[p] = ('file', key, None, info.mode)

    walk(t.root, '/', 0)
    return v, problems


def udf_view(u, model):
    res = O.Resolver(model)
    v = {}
    for path, e in u.entries.items():
        if e.kind == 'dir':
            v[path] = ('dir', None, None)
        elif e.kind == 'symlink':
            v[path] = ('symlink', None, e.target)
        else:
            b = u.entry_bytes(e)
            key = ('bad', 'out-of-image') if b is None else res.key(b)
            v[path] = ('file', key, None)
    return v
