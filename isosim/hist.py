"""HIST: swarm-configured, model-directed edit histories with restarts.

generate(seed, profile) is a pure function of the seed and uses only the
model; execute(plan, oracle) runs the explicit op list (never the PRNG) on
the real library under the installed seams, which is what makes a plan a
replay file and lets the minimiser edit it."""
import hashlib
import traceback
from collections import Counter

from . import gen as G
from . import model as M
from . import observe as O
from . import world as W
from .driver import Driver, Outcome, innermost, stem
from .disk import SimDisk, SimFile, RecordingFile


class Profile:
    """What a property wants from the generator."""

    def __init__(self, name, nops=(3, 25), weights=None, allow=None, cfg_bias=None, cfg_fn=None,
                 maxdepth=11, restarts=(0, 2), final_restart=True, zero_bias=0.0, sizes=None, post_gen=None):
        self.name = name
        self.nops = nops
        self.weights = weights
        self.allow = allow
        self.cfg_bias = cfg_bias
        self.cfg_fn = cfg_fn
        self.maxdepth = maxdepth
        self.restarts = restarts
        self.final_restart = final_restart
        self.zero_bias = zero_bias
        self.sizes = sizes
        self.post_gen = post_gen


def draw_dt(r):
    k = r.random()
    if k < 0.5:
        return 0.0
    if k < 0.8:
        return float(r.choice((1, 2, 59, 60, 3599, 3600)))
    if k < 0.9:
        return float(r.randrange(86400, 86400 * 400))
    if k < 0.95:
        return -float(r.choice((1, 3600, 86400)))
    return float(r.randrange(1, 86400))


def generate(seed, profile):
    w = W.World(seed)
    rc = w.rng('cfg')
    cfg = profile.cfg_fn(rc) if profile.cfg_fn else G.swarm_config(rc, profile.cfg_bias)
    # tuning knob (swarm style): in a minority of level-3/4 runs files are split into several extents at a few KiB
    # instead of 4 GiB - 2 KiB, so that multi-extent files occur with small data (pycdlib's guarded hook)
    rk = w.rng('knobs')
    max_extent = None
    if cfg.get('level', 1) >= 3 and rk.random() < getattr(profile, 'multi_extent_rate', 0.0):
        max_extent = rk.choice((2048, 4096, 6144, 20480))
        if getattr(profile, 'multi_extent_no_udf', False):
            cfg['udf'] = False
    model = M.Model(cfg)
    g = G.OpGen(w.rng('ops'), w.rng('args'), model, weights=profile.weights, maxdepth=profile.maxdepth,
                allow=profile.allow, size_choices=profile.sizes or G.SIZES)
    g.zero_bias = profile.zero_bias
    renv = w.rng('dt')
    n = w.rng('len').randint(*profile.nops)
    ops = []
    for _ in range(n):
        got = g.gen()
        if got is None:
            continue
        many = isinstance(got, list) and len(got) > 20
        for j, op in enumerate(got if isinstance(got, list) else [got]):
            if not M.valid(model, op):
                continue
            # the hundreds of edits of a big macro-op happen in one go: years between each of them would carry the
            # clock past 2155, the last year a directory record date can hold
            op['dt'] = draw_dt(renv) if not (many and j) and not op.get('_same_instant') else 0.0
            model.apply(op)
            ops.append(op)
    if profile.final_restart and (not ops or ops[-1]['op'] != 'restart'):
        ops.append({'op': 'restart', 'dt': draw_dt(renv)})
        model.apply(ops[-1])
    plan = {'seed': seed, 'profile': profile.name, 'cfg': cfg, 'env': w.env_record(),
            'blocksize': w.rng('env2').choice((2048, 4096, 32768, 32768, 65536, 1 << 20, 1000, 3000)), 'ops': ops}
    if max_extent:
        plan['env']['max_extent'] = max_extent
    if profile.post_gen:
        profile.post_gen(plan, w, model)
    return plan


class Ctx:
    def __init__(self, plan, world, driver):
        self.plan = plan
        self.world = world
        self.d = driver
        self.violations = []
        self.stats = Counter()
        self.probes = Counter()
        self.status = 'ok'
        self.h = hashlib.blake2b(digest_size=16)
        self.accepted_edits = 0
        self.writes = 0
        self.last_disk = None
        self.last_wf = None
        self.note = None
        self.soft = False
        self.stop = False

    @property
    def model(self):
        return self.d.model

    def event(self, *parts):
        self.h.update(repr(parts).encode('utf-8'))
        self.h.update(b'\n')

    def violate(self, sig, detail='', fatal=True):
        """fatal=False: an image-level anomaly that does not make the run's
        state diverge from the model; the run goes on (each signature once)."""
        sig = [str(s) for s in sig]
        # runs in which a file is recorded as several extents (the multi-extent knob is on and a file is longer than
        # the threshold) carry a tag, so that what only fails there is told apart from what fails anywhere
        me = self.world.max_extent
        if me and any(b.length > me for b in self.model.blobs.values()):
            n = max((b.length + me - 1) // me for b in self.model.blobs.values())
            sig = ['multi-extent-file:%s' % ('2-extents' if n == 2 else '3+-extents')] + sig
        if any(v['sig'] == sig for v in self.violations):
            return
        self.violations.append({'sig': sig, 'detail': str(detail)[:2000]})
        if fatal:
            self.status = 'violation'
        else:
            self.soft = True


class Oracle:
    """Base: hooks called by execute().  Return False from a hook to stop the run."""
    prop = 'C00'

    def on_new(self, ctx):
        pass

    def before_edit(self, ctx, op):
        pass

    def on_edit(self, ctx, op, out):
        pass

    def before_write(self, ctx):
        pass

    def on_write(self, ctx, disk, wf):
        pass

    def on_reopen(self, ctx):
        pass

    def on_end(self, ctx):
        pass

    def doomed_applicable(self, ctx, op):
        """A doomed call is applied only where its cause is the *only* thing wrong with it:
        'valid_otherwise' ops (bad name, bad parameter) must pass the structural validity
        check; the others (duplicate, missing parent, wrong type, ...) must fail it."""
        plain = {k: v for k, v in op.items() if k not in ('expect', 'cause', 'valid_otherwise')}
        if op.get('valid_otherwise'):
            return M.valid(ctx.model, plain)
        return not M.valid(ctx.model, plain)

    def on_doomed(self, ctx, op, out):
        if out.ok:
            # the implementation accepted a call the documented rules refuse; the model cannot follow
            ctx.status = 'inconclusive'
            ctx.note = 'doomed op accepted: %s' % op.get('cause')

    # how to treat an exception out of a model-valid edit
    def on_edit_refused(self, ctx, op, out):
        ctx.status = 'inconclusive'
        ctx.note = 'edit refused: %s %s' % (op['op'], out.sig())
        ctx.stats['inconclusive:edit:%s:%s' % (op['op'], out.etype)] += 1

    # "the written image can always be opened by the library itself" is C01's
    # (and C02's) business; the other HIST checks end such a run inconclusive
    judge_write_open = False

    def on_write_failed(self, ctx, out):
        if self.judge_write_open:
            ctx.violate(('write', out.etype, out.where, stem(out.msg)), out.msg)
        else:
            ctx.status = 'inconclusive'
            ctx.note = 'write failed: %s' % (out.sig(),)
            ctx.stats['inconclusive:write:%s' % out.etype] += 1

    def on_open_failed(self, ctx, out):
        if self.judge_write_open:
            ctx.violate(('open', out.etype, out.where, stem(out.msg)), out.msg)
        else:
            ctx.status = 'inconclusive'
            ctx.note = 'open failed: %s' % (out.sig(),)
            ctx.stats['inconclusive:open:%s' % out.etype] += 1


def result_of(ctx, extra=None):
    m = ctx.model
    if ctx.status in ('ok', 'inconclusive') and ctx.soft:
        ctx.status = 'violation'
    r = {
        'status': ctx.status,
        'violations': ctx.violations,
        'stats': dict(ctx.stats),
        'probes': dict(ctx.probes),
        'fingerprint': hashlib.blake2b(repr(m.shape()).encode(), digest_size=8).hexdigest(),
        'digest': ctx.h.hexdigest(),
        'nontrivial': ctx.accepted_edits >= 3 and ctx.writes >= 1,
        'sim_seconds': ctx.world.clock.covered,
        'note': ctx.note,
    }
    if extra:
        r.update(extra)
    return r


def execute(plan, oracle):
    env = plan['env']
    w = W.World(plan['seed'], tz=env['tz'], clock0=env['clock0'], clock_mode=env['clock_mode'], cache=env['cache'], max_extent=env.get('max_extent'))
    with w:
        d = Driver(w, plan['cfg'])
        d.blocksize = plan.get('blocksize', 32768)
        ctx = Ctx(plan, w, d)
        try:
            d.new()
            ctx.event('new', sorted(plan['cfg'].items(), key=str))
            oracle.on_new(ctx)
            for op in plan['ops']:
                if ctx.status != 'ok' or ctx.stop:
                    break
                if op.get('expect'):
                    # a doomed call: must be invalid in the current model state, else it is skipped
                    if oracle.doomed_applicable(ctx, op):
                        w.clock.advance(op.get('dt', 0.0))
                        out = d.apply_doomed(op)
                        ctx.event('doomed', op['op'], out.ok, out.etype)
                        ctx.stats['doomed:%s:%s' % (op.get('cause', '?'), 'refused' if not out.ok else 'ACCEPTED')] += 1
                        oracle.on_doomed(ctx, op, out)
                    else:
                        ctx.stats['skipped_doomed_not_applicable'] += 1
                    continue
                if not M.valid(d.model, op):
                    ctx.stats['skipped_invalid'] += 1
                    continue
                w.clock.advance(op.get('dt', 0.0))
                if op['op'] == 'restart':
                    _restart(ctx, oracle, op)
                    continue
                oracle.before_edit(ctx, op)
                out = d.apply(op)
                ctx.event(op['op'], out.ok, out.etype, tuple(w.clock.readings))
                if not out.ok:
                    ctx.stats['refused:' + op['op']] += 1
                    oracle.on_edit_refused(ctx, op, out)
                    break
                ctx.stats['accepted:' + op['op']] += 1
                ctx.accepted_edits += 1
                oracle.on_edit(ctx, op, out)
            if ctx.status == 'ok':
                oracle.on_end(ctx)
        finally:
            d.close()
        return result_of(ctx)


def _restart(ctx, oracle, op):
    d = ctx.d
    disk = SimDisk('gen%d' % len(d.disks), b'', ctx.world.next_seq)
    wf = RecordingFile(disk, 'wb')
    oracle.before_write(ctx)
    ctx.world.clock.take_readings()
    try:
        d.iso.write_fp(wf, d.blocksize)
    except Exception as e:  # noqa
        out = Outcome(False, e)
        ctx.event('write', False, out.etype)
        oracle.on_write_failed(ctx, out)
        return
    ctx.writes += 1
    ctx.stats['writes'] += 1
    ctx.last_disk, ctx.last_wf = disk, wf
    ctx.event('write', True, hashlib.blake2b(bytes(disk.data), digest_size=16).hexdigest(), len(wf.writes),
              tuple(ctx.world.clock.readings))
    oracle.on_write(ctx, disk, wf)
    if ctx.status != 'ok':
        return
    d.disks.append(disk)
    old = d.iso
    ctx.world.new_generation()
    try:
        if op.get('reuse'):
            d.iso, d.cur_fp = d.reopen_same_object(old, disk, decoy=(op.get('reuse') == 'decoy'))
            old = None
        else:
            d.iso, d.cur_fp = d.open_disk(disk)
    except Exception as e:  # noqa
        out = Outcome(False, e)
        ctx.event('open', False, out.etype)
        oracle.on_open_failed(ctx, out)
        return
    try:
        if old is not None:
            old.close()
    except Exception:
        pass
    d.model.apply(op)
    ctx.stats['restarts'] += 1
    ctx.event('open', True)
    oracle.on_reopen(ctx)


def inplace_epilogue(ctx, ns, check_image, rate=0.6):
    """After the last restart: modify one file that has a name in namespace ns in place (same number of sectors, also
    a different length) on the image as it lies on the disk, then hand the image to check_image again - the records of
    that namespace must follow.  Whether the call is accepted is C17's business."""
    import io
    from .disk import SimFile
    from .driver import blob_data
    m = ctx.model
    disk = ctx.last_disk
    if disk is None or m.hybrid or m.eltorito or m.rr_moved:
        return
    r = ctx.world.rng('inplace-epilogue')
    cands = []
    for p, n in m.iter_ns('iso'):
        if n.kind == 'file' and isinstance(n.blob, int) and not n.noinode and m.blobs[n.blob].length > 0:
            if any(x == ns for x, _ in m.names_of_blob(n.blob)):
                cands.append((p, n))
    if not cands or r.random() > rate:
        return
    p, n = r.choice(sorted(cands, key=lambda x: x[0]))
    old = m.blobs[n.blob].length
    nsec = (old + 2047) // 2048
    newlen = r.choice((max(1, (nsec - 1) * 2048 + 1), nsec * 2048, max(1, old - 1), min(nsec * 2048, old + 1), min(nsec * 2048, old + 1000)))
    if (newlen + 2047) // 2048 != nsec:
        return
    newblob = 950000 + r.randrange(1000)
    iso = ctx.d.pm.PyCdlib()
    try:
        iso.open_fp(SimFile(disk, 'r+b'))
        kw = {'rr_name': n.rr} if m.rr and n.rr else {}
        iso.modify_file_in_place(io.BytesIO(blob_data(M.Blob(newblob, newlen))), newlen, p, **kw)
        iso.close()
    except Exception as e:      # noqa
        ctx.stats['modify_not_done:%s' % type(e).__name__] += 1
        return
    ctx.probes['modified_in_place_then_decoded'] += 1
    m.apply({'op': 'modify', 'iso': p, 'blob': newblob, 'len': newlen})
    check_image(ctx, bytes(disk.data))
