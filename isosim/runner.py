"""Batch runner: seeded search over many simulated runs on all cores,
minimisation, replay files, known-findings matching, evidence.

Exit codes: 0 property held on everything explored (KNOWN-FINDING lines
allowed); 1 with ``VIOLATION property=<id> replay=<path>``; 2 harness failure
(worker death, wall cap, determinism mismatch) - a broken harness can never
look like a pass or like a defect."""
import faulthandler
import hashlib
import importlib
import json
import multiprocessing
import os
import signal
import subprocess
import sys
import time
import traceback
from collections import Counter
from concurrent.futures import ProcessPoolExecutor, wait, FIRST_COMPLETED

from . import world as W

VERIF = os.path.dirname(os.path.dirname(os.path.abspath(__file__)))
REPLAYS = os.environ.get('VERIF_REPLAY_DIR') or os.path.join(VERIF, 'replays')
EVIDENCE = os.environ.get('VERIF_EVIDENCE_DIR') or os.path.join(VERIF, 'evidence')     # bin/seedtest points these elsewhere
KNOWN = os.path.join(VERIF, 'known_findings.jsonl')
RUN_WATCHDOG_S = 300     # hard: the worker dumps its stack and dies (a hang inside C code)
RUN_SOFT_S = 150          # soft: SIGALRM raises RunTimeout inside the run, which is then reported with its plan


def load_prop(prop):
    return importlib.import_module('isosim.oracles.' + prop.lower())


def load_known(prop):
    out = []
    if os.path.exists(KNOWN):
        for line in open(KNOWN):
            line = line.strip()
            if not line or line.startswith('#'):
                continue
            rec = json.loads(line)
            if (rec.get('property') == prop or prop in rec.get('also', [])) and rec.get('status', 'open') == 'open':
                out.append(rec)
    return out


def sig_matches(pattern, sig):
    """pattern: list of strings, '*' matches any one element; a pattern shorter
    than the signature matches as a prefix only if it ends with '**'."""
    if pattern and pattern[-1] == '**':
        pattern = pattern[:-1]
        if len(sig) < len(pattern):
            return False
        sig = sig[:len(pattern)]
    if len(pattern) != len(sig):
        return False
    import fnmatch
    return all(p == s or fnmatch.fnmatchcase(s, p.replace('[', '[[]')) for p, s in zip(pattern, sig))


def known_for(known, sig):
    for rec in known:
        if sig_matches(rec['signature'], sig):
            return rec
    # runs with a multi-extent file carry a tag in front; what is known without the tag is known with it
    if sig and str(sig[0]).startswith('multi-extent-file:'):
        for rec in known:
            if sig_matches(rec['signature'], sig[1:]):
                return rec
    return None


# ---------------------------------------------------------------------------
# worker side

class RunTimeout(BaseException):
    """One simulated run used more wall time than RUN_SOFT_S: reported as a
    harness failure with its plan (never as a pass, never as a violation)."""


def _on_alarm(signum, frame):
    raise RunTimeout('run exceeded %ds of wall time' % RUN_SOFT_S)


_IN_FLIGHT = None     # shared array: the run index each worker is busy with (+1), for the post-mortem of a dead pool


def _worker_init():
    W.ensure_repo_on_path()
    signal.signal(signal.SIGINT, signal.SIG_IGN)
    signal.signal(signal.SIGALRM, _on_alarm)


def _slot():
    ident = getattr(multiprocessing.current_process(), '_identity', None) or (0,)
    return (ident[0] - 1) % len(_IN_FLIGHT) if _IN_FLIGHT is not None and ident[0] else None


def run_one(prop, verif_seed, index, tier):
    mod = load_prop(prop)
    rs = W.run_seed(verif_seed, prop, index)
    slot = _slot()
    if slot is not None:
        _IN_FLIGHT[slot] = index + 1
    faulthandler.dump_traceback_later(RUN_WATCHDOG_S, exit=True)
    armed = signal.getsignal(signal.SIGALRM) is _on_alarm
    if armed:
        signal.alarm(RUN_SOFT_S)
    plan = None
    try:
        try:
            plan = mod.generate(rs, tier)
            res = mod.execute(plan)
        except BaseException as e:  # harness exception: classified apart from VIOLATION
            res = {'status': 'harness', 'violations': [], 'stats': {}, 'probes': {}, 'fingerprint': '', 'digest': '',
                   'nontrivial': False, 'sim_seconds': 0.0,
                   'note': 'harness exception: %s\n%s' % (repr(e), traceback.format_exc()[-3000:])}
    finally:
        if armed:
            signal.alarm(0)
        faulthandler.cancel_dump_traceback_later()
        if slot is not None:
            _IN_FLIGHT[slot] = 0
    res['index'] = index
    res['run_seed'] = rs
    if res['status'] in ('violation', 'harness'):
        res['plan'] = plan
    elif index < 3:
        res['plan'] = plan
    return res


def _run_chunk(prop, verif_seed, start, n, tier):
    out = []
    for i in range(start, start + n):
        out.append(run_one(prop, verif_seed, i, tier))
    return out


# ---------------------------------------------------------------------------
# minimisation

def _same_class(res, sig):
    return res['status'] == 'violation' and any(v['sig'] == sig for v in res['violations'])


def shrink(mod, plan, sig, budget_s=60):
    """Delta-debugging over the recorded run.  A candidate is accepted only if
    the *same violation signature* persists."""
    t0 = time.time()
    tries = [0]

    def test(p):
        tries[0] += 1
        try:
            return _same_class(mod.execute(p), sig)
        except BaseException:
            return False

    def timeup():
        return time.time() - t0 > budget_s

    cur = json.loads(json.dumps(plan))
    key = getattr(mod, 'SHRINK_LIST_KEYS', ['ops'])
    # (1) ddmin on list-valued parts
    for k in key:
        items = cur.get(k)
        if not isinstance(items, list):
            continue
        n = 2
        while len(items) >= 2 and not timeup():
            chunk = max(1, len(items) // n)
            reduced = False
            for i in range(0, len(items), chunk):
                cand = items[:i] + items[i + chunk:]
                p2 = dict(cur)
                p2[k] = cand
                if hasattr(mod, 'fixup_plan'):
                    p2 = mod.fixup_plan(p2)
                if test(p2):
                    items = p2[k]
                    cur = p2
                    n = max(n - 1, 2)
                    reduced = True
                    break
                if timeup():
                    break
            if not reduced:
                if chunk == 1:
                    break
                n = min(len(items), n * 2)
        cur[k] = items
    # (2) property-specific simplifications
    if hasattr(mod, 'simplifications'):
        changed = True
        while changed and not timeup():
            changed = False
            for cand in mod.simplifications(cur):
                if timeup():
                    break
                if test(cand):
                    cur = cand
                    changed = True
                    break
    cur['minimised'] = True
    cur['original_len'] = {k: len(plan.get(k) or []) for k in key}
    cur['shrink_tries'] = tries[0]
    return cur


def write_replay(prop, plan, sig, res, verif_seed):
    os.makedirs(REPLAYS, exist_ok=True)
    sid = hashlib.blake2b(json.dumps(sig).encode(), digest_size=4).hexdigest()
    path = os.path.join(REPLAYS, '%s-%s-%s.json' % (prop, verif_seed, sid))
    rec = {'property': prop, 'signature': sig, 'run_seed': plan.get('seed'), 'plan': plan,
           'event_digest': res.get('digest'), 'detail': [v for v in res['violations'] if v['sig'] == sig][:1]}
    with open(path, 'w') as f:
        json.dump(rec, f, indent=1, sort_keys=True, default=str)
    return path


def replay_file(path):
    """Re-execute the explicit plan of a replay file; returns the result."""
    W.ensure_repo_on_path()
    rec = json.load(open(path))
    mod = load_prop(rec['property'])
    res = mod.execute(rec['plan'])
    return rec, res


def verify_replay_fresh(path, hashseed='7'):
    """Replay in a fresh interpreter under another PYTHONHASHSEED; must
    reproduce the same signature and event digest."""
    env = dict(os.environ)
    env['PYTHONHASHSEED'] = hashseed
    p = subprocess.run([sys.executable, os.path.join(VERIF, 'bin', 'replay'), path, '--quiet'], env=env,
                       capture_output=True, text=True, timeout=600)
    return p.returncode == 1 and 'REPRODUCED' in p.stdout, p.stdout + p.stderr


# ---------------------------------------------------------------------------
# batch

def batch(prop, tier, verif_seed, budget_s, workers, max_runs=None, chunk=None, min_runs=0):
    mod = load_prop(prop)
    chunk = chunk or getattr(mod, 'CHUNK', 20)
    ctx = multiprocessing.get_context('fork')
    t0 = time.time()
    results = []
    next_index = 0
    hard_cap = budget_s * 3 + 120
    pending = set()
    harness_fail = None
    global _IN_FLIGHT
    _IN_FLIGHT = ctx.Array('q', max(64, workers * 4), lock=False)
    with ProcessPoolExecutor(max_workers=workers, mp_context=ctx, initializer=_worker_init) as ex:
        try:
            while True:
                now = time.time()
                want_more = (now - t0 < budget_s or next_index < min_runs) and (max_runs is None or next_index < max_runs)
                while want_more and len(pending) < workers * 2:
                    n = chunk if max_runs is None else min(chunk, max_runs - next_index)
                    if n <= 0:
                        break
                    pending.add(ex.submit(_run_chunk, prop, verif_seed, next_index, n, tier))
                    next_index += n
                if not pending:
                    break
                done, pending = wait(pending, timeout=5, return_when=FIRST_COMPLETED)
                for f in done:
                    results.extend(f.result())
                if time.time() - t0 > hard_cap:
                    harness_fail = 'wall cap exceeded'
                    break
        except Exception as e:  # BrokenProcessPool etc.
            harness_fail = 'worker pool failure: %r; run indices in flight: %s (bin/check %s --tier %s --seed %s --only-index N reruns one)' % (
                e, sorted(int(x) - 1 for x in _IN_FLIGHT if x), prop, tier, verif_seed)
        if harness_fail:
            for f in pending:
                f.cancel()
            for p in list(getattr(ex, '_processes', {}).values()):
                try:
                    os.kill(p.pid, signal.SIGKILL)
                except Exception:
                    pass
    return results, time.time() - t0, harness_fail


def summarise(prop, mod, tier, verif_seed, results, wall, level):
    stats = Counter()
    probes = Counter()
    fps = set()
    nontrivial_fps = set()
    status = Counter()
    sim_s = 0.0
    samples = []
    digests = set()
    for r in results:
        status[r['status']] += 1
        stats.update(r.get('stats') or {})
        probes.update(r.get('probes') or {})
        sim_s += r.get('sim_seconds', 0.0)
        if r.get('fingerprint'):
            fps.add(r['fingerprint'])
            if r.get('nontrivial') and r['status'] == 'ok':
                nontrivial_fps.add(r['fingerprint'])
        if r.get('digest'):
            digests.add(r['digest'])
        if 'plan' in r and len(samples) < 3 and r['status'] == 'ok':
            samples.append(getattr(mod, 'sample_of', lambda p: p)(r['plan']))
    n = len(results)
    if not samples:
        for r in results:
            if 'plan' in r:
                samples.append(getattr(mod, 'sample_of', lambda p: p)(r['plan']))
                break
    cov = {
        'evaluations': n,
        'distinct_nontrivial': len(nontrivial_fps),
        'rule': getattr(mod, 'RULE', ''),
        'samples': samples,
        'run_status': dict(status),
        'distinct_state_fingerprints': len(fps),
        'distinct_event_digests': len(digests),
        'runs_per_hour': int(n / wall * 3600) if wall > 0 else 0,
        'seeds_per_hour': int(n / wall * 3600) if wall > 0 else 0,
        'simulated_seconds_covered': sim_s,
        'op_and_fault_counts': dict(sorted(stats.items())),
        'reach_probes': dict(sorted(probes.items())),
        'probes_at_zero': [p for p in getattr(mod, 'PROBES', []) if not probes.get(p)],
        'components': getattr(mod, 'COMPONENTS', {
            'real': ['all of pycdlib (working tree of /repo)'],
            'stub': ['disk (SimDisk/SimFile)', 'filesystem behind open()/os.stat (SimFS)', 'clock (SimClock)', 'entropy (seeded)'],
        }),
    }
    ev = {
        'property_id': prop,
        'tier': tier,
        'seed': int(verif_seed),
        'level': level,
        'coverage': cov,
        'assumptions': getattr(mod, 'ASSUMPTIONS', []),
        'wall_s': round(wall, 2),
        'violations': 0,
    }
    return ev


def main_check(prop, tier, verif_seed=None, budget_s=None, workers=None, max_runs=None):
    W.ensure_repo_on_path()
    mod = load_prop(prop)
    if verif_seed is None:
        verif_seed = int(os.environ.get('VERIF_SEED', '1'))
    budgets = getattr(mod, 'BUDGET', {'quick': 40, 'thorough': 600})
    if budget_s is None:
        budget_s = float(os.environ.get('VERIF_BUDGET_S', budgets[tier]))
    workers = workers or int(os.environ.get('VERIF_WORKERS', str(min(16, os.cpu_count() or 1))))
    level = getattr(mod, 'LEVEL', 'exploration')
    print('isosim check %s tier=%s VERIF_SEED=%s budget=%ss workers=%d repo=%s' % (prop, tier, verif_seed, budget_s, workers, W.REPO))
    sys.stdout.flush()

    # determinism self-test on a seed sample (same seed twice; fresh interpreter with another hash seed)
    dt0 = time.time()
    ok, msg = determinism_selftest(prop, tier, verif_seed, n=getattr(mod, 'DET_SAMPLE', {'quick': 6, 'thorough': 40})[tier])
    if not ok:
        print('HARNESS-FAILURE determinism self-test: %s' % msg)
        return 2
    print('determinism self-test ok (%s, %.1fs)' % (msg, time.time() - dt0))
    sys.stdout.flush()

    results, wall, harness_fail = batch(prop, tier, verif_seed, budget_s, workers, max_runs,
                                        min_runs=getattr(mod, 'MIN_RUNS', {'quick': 0, 'thorough': 0})[tier])
    if harness_fail:
        print('HARNESS-FAILURE %s' % harness_fail)
        return 2
    harness = [r for r in results if r['status'] == 'harness']
    if harness:
        print('HARNESS-FAILURE %d runs raised harness exceptions; first:\n%s' % (len(harness), harness[0].get('note')))
        p = write_replay(prop, harness[0]['plan'], ['harness'], {'violations': [], 'digest': ''}, verif_seed)
        print('harness replay=%s' % p)
        return 2

    known = load_known(prop)
    by_sig = {}
    for r in results:
        if r['status'] == 'violation':
            for v in r['violations']:
                by_sig.setdefault(tuple(v['sig']), []).append(r)
    ev = summarise(prop, mod, tier, verif_seed, results, wall, level)
    known_hits = Counter()
    new_sigs = []
    for sig, rs in sorted(by_sig.items()):
        k = known_for(known, list(sig))
        if k is not None:
            known_hits[k['what_fails']] += len(rs)
        else:
            new_sigs.append((sig, rs))
    for what, n in sorted(known_hits.items()):
        print('KNOWN-FINDING: property=%s %s (hit by %d runs)' % (prop, what, n))
    rc = 0
    reported = 0
    for sig, rs in new_sigs:
        if reported >= int(os.environ.get('VERIF_MAX_REPORT', '5')):
            print('... %d more distinct violation signatures not minimised' % (len(new_sigs) - reported))
            break
        rs.sort(key=lambda r: len(json.dumps(r['plan'])))
        r = rs[0]
        plan = r['plan']
        try:
            plan = shrink(mod, r['plan'], list(sig), budget_s=getattr(mod, 'SHRINK_BUDGET', 45))
            res2 = mod.execute(plan)
            if not _same_class(res2, list(sig)):
                plan, res2 = r['plan'], r
        except BaseException as e:
            print('minimiser failed (%r); reporting unminimised' % (e,))
            plan, res2 = r['plan'], r
        path = write_replay(prop, plan, list(sig), res2, verif_seed)
        okr, outp = verify_replay_fresh(path)
        if not okr:
            print('HARNESS-FAILURE replay of %s did not reproduce in a fresh interpreter:\n%s' % (path, outp[-2000:]))
            return 2
        print('VIOLATION property=%s replay=%s' % (prop, path))
        print('  signature=%s runs=%d seed=%s' % (json.dumps(list(sig)), len(rs), r['run_seed']))
        d = [v for v in res2['violations'] if v['sig'] == list(sig)]
        if d:
            print('  detail=%s' % d[0]['detail'][:600])
        reported += 1
        rc = 1
    ev['violations'] = len(new_sigs)
    ev['coverage']['known_finding_hits'] = dict(known_hits)
    ev['coverage']['violation_signatures'] = [list(s) for s, _ in new_sigs][:20]
    os.makedirs(EVIDENCE, exist_ok=True)
    with open(os.path.join(EVIDENCE, '%s.json' % prop), 'w') as f:
        json.dump(ev, f, indent=1, sort_keys=True, default=str)
    st = ev['coverage']['run_status']
    print('runs=%d ok=%d violation=%d inconclusive=%d distinct_nontrivial=%d wall=%.1fs (%d runs/h)' % (
        len(results), st.get('ok', 0), st.get('violation', 0), st.get('inconclusive', 0),
        ev['coverage']['distinct_nontrivial'], wall, ev['coverage']['runs_per_hour']))
    if rc == 0 and ev['coverage']['distinct_nontrivial'] < 2:
        print('HARNESS-FAILURE fewer than 2 distinct non-trivial runs completed')
        return 2
    return rc


# ---------------------------------------------------------------------------
# determinism self-test

def _digest_of(prop, tier, verif_seed, indices):
    mod = load_prop(prop)
    out = []
    for i in indices:
        rs = W.run_seed(verif_seed, prop, i)
        plan = mod.generate(rs, tier)
        res = mod.execute(plan)
        out.append((hashlib.blake2b(json.dumps(plan, sort_keys=True, default=str).encode(), digest_size=8).hexdigest(),
                    res['digest'], res['status']))
    return out


def determinism_selftest(prop, tier, verif_seed, n=6):
    """Each sampled seed is executed twice here and once more in a fresh
    interpreter under a different PYTHONHASHSEED; plan and event digests must agree."""
    idx = list(range(1000000, 1000000 + n))
    a = _digest_of(prop, tier, verif_seed, idx)
    b = _digest_of(prop, tier, verif_seed, idx)
    if a != b:
        return False, 'same process, two executions differ: %r vs %r' % (a, b)
    env = dict(os.environ)
    env['PYTHONHASHSEED'] = '12345'
    code = ('import sys,json; sys.path.insert(0,%r); from isosim import runner, world; world.ensure_repo_on_path(); '
            'print(json.dumps(runner._digest_of(%r,%r,%d,%r)))' % (VERIF, prop, tier, int(verif_seed), idx))
    p = subprocess.run([sys.executable, '-c', code], env=env, capture_output=True, text=True, timeout=900)
    if p.returncode != 0:
        return False, 'fresh interpreter failed: %s' % p.stderr[-1500:]
    c = [tuple(x) for x in json.loads(p.stdout.strip().splitlines()[-1])]
    if c != a:
        return False, 'fresh interpreter (PYTHONHASHSEED=12345) differs: %r vs %r' % (c, a)
    return True, '%d seeds x 3 executions, 2 interpreters, 2 hash seeds' % n
