"""Attributable content.

Blob ``b`` of length ``L`` is ``PRF(b, L)``: every 64-byte stripe starts with a
4-byte magic, the 4-byte blob id and the 8-byte stripe index; the remaining 48
bytes are keyed filler.  Any stripe found anywhere in an image names the blob
and offset it belongs to.
"""
import functools
import hashlib
import re
import struct

MAGIC = b'\xa5\x5aBL'
STRIPE = 64
_HDR = struct.Struct('>4sIQ')
_MAGIC_RE = re.compile(re.escape(MAGIC))


def _filler(blob_id):
    return hashlib.blake2b(b'filler', digest_size=48, key=struct.pack('>I', blob_id)).digest()


@functools.lru_cache(maxsize=1024)
def _blob_plain(blob_id, length):
    fill = _filler(blob_id)
    n = (length + STRIPE - 1) // STRIPE
    pack = _HDR.pack
    data = b''.join([pack(MAGIC, blob_id, i) + fill for i in range(n)])
    return data[:length]


def blob_bytes(blob_id, length, overlays=()):
    """overlays: sequence of (offset, bytes) applied on top (boot files need
    fixed bytes in places); everything around them stays attributable."""
    data = _blob_plain(blob_id, length)
    if overlays:
        ba = bytearray(data)
        for off, b in overlays:
            if off < length:
                b = b[:length - off]
                ba[off:off + len(b)] = b
        data = bytes(ba)
    return data


def scan_stripes(image, start=0, end=None):
    """Yield (image_offset, blob_id, stripe_index) for every aligned stripe
    header found in image[start:end]."""
    if end is None:
        end = len(image)
    for m in _MAGIC_RE.finditer(image, start, end):
        off = m.start()
        if off % STRIPE or off + 16 > end:
            continue
        _, bid, idx = _HDR.unpack_from(image, off)
        yield off, bid, idx


def attribute(data):
    """For a byte string read back from somewhere: list of (offset, blob, idx)
    of stripes whose header sits at a 64-aligned offset of ``data``."""
    return list(scan_stripes(data))
