"""isosim - deterministic simulator with fault injection for pycdlib.

Everything random derives from one integer (VERIF_SEED); see DESIGN.md.
"""
