"""C19 - recorded timestamps denote the instant they were made from.

The clock and the zone *are* the nondeterminism here: short histories (every
record-creating edit, all extensions) run under a SimClock whose instants are
drawn from 1971..2098 with mass on year ends, 29 February, DST transitions and
2038, under a POSIX TZ rule from a catalogue (-12h..+14h, :30/:45 zones,
northern and southern DST); clock faults: jumps between edits, jitter between
the successive time() calls of one edit, a zone change before re-mastering.
Decoders only: every timestamp in the written image, read as local fields plus
recorded offset, must denote an instant the creating edit read off the clock."""
import calendar
import hashlib
import struct
import time as _rt
from collections import Counter

from .. import hist as H
from .. import gen as G
from .. import model as M
from .. import world as W
from .. import dec_iso, dec_susp, dec_udf
from ..disk import SimDisk, SimFile

PROP = 'C19'
LEVEL = 'exploration'
RULE = ('seeded (instant, TZ rule, clock mode) environments x short edit histories with all record-creating edits; every directory-record date, '
        'volume-descriptor date, Rock Ridge TF stamp and UDF timestamp of every written image is decoded independently and must equal, to the '
        'second, an instant in the reading set of the edit (or write) that created it; then the image is reopened under another TZ and instant and '
        'written again: every timestamp field except the volume modification dates must be byte-identical; non-trivial: >= 3 accepted edits, >= 1 write '
        'and >= 10 timestamps decoded; distinct = (TZ rule, hour bucket of the instant, configuration)')
BUDGET = {'quick': 40, 'thorough': 900}
PROBES = ['timestamps_checked', 'dr_dates', 'vd_dates', 'rr_tf_stamps', 'udf_timestamps', 'dst_in_effect', 'negative_offset', 'quarter_hour_zone',
          'half_hour_zone', 'year_boundary_crossed_by_offset', 'after_2038', 'jitter_mode', 'clock_stepped_back', 'remaster_identity_checked', 'expiration_date_given', 'zone_changed_between_edits', 'remaster_with_foreign_hundredths']
ASSUMPTIONS = ['every TZ rule in the catalogue has offsets that are multiples of 15 minutes (the resolution of the ECMA-119 fields)',
               'an instant is compared to the second (the floor of the simulated reading)']


def cfg_fn(r):
    cfg = G.swarm_config(r)
    if r.random() < 0.6:
        cfg['udf'] = True
    if r.random() < 0.6 and not cfg['rr']:
        cfg['rr'] = r.choice(('1.09', '1.10', '1.12'))
    if r.random() < 0.4 and not cfg['joliet']:
        cfg['joliet'] = 3
    if r.random() < 0.3:
        cfg['vol_expire_date'] = float(W.World.pick_instant(r))
    return G.clamp_config(cfg)


PROFILE = H.Profile('c19', nops=(3, 12), cfg_fn=cfg_fn, final_restart=True,
                    weights={'add_fp': 25, 'add_dir': 20, 'add_symlink': 10, 'add_link': 8, 'add_eltorito': 3, 'restart': 3, 'dup_pvd': 0.3,
                             'mass_dirs': 0, 'mass_files': 0, 'add_isohybrid': 0, 'rm_file': 2, 'rm_dir': 2})


def inst7(b):
    y, mo, d, h, mi, s, off = struct.unpack('<BBBBBBb', b)
    if mo == 0 and d == 0:
        return None
    try:
        return calendar.timegm((1900 + y, mo, d, h, mi, s)) - off * 900, off * 15
    except Exception:
        return 'bad', None


def inst17(b):
    if b[:16] == b'0' * 16:
        return None
    try:
        s = b[:14].decode('ascii')
        off = struct.unpack('<b', b[16:17])[0]
        return calendar.timegm((int(s[0:4]), int(s[4:6]), int(s[6:8]), int(s[8:10]), int(s[10:12]), int(s[12:14]))) - off * 900, off * 15
    except Exception:
        return 'bad', None


def inst_udf(b):
    tz, year, mo, d, h, mi, s, cs, hus, us = struct.unpack('<HHBBBBBBBB', b)
    typ = tz >> 12
    off = tz & 0x0fff
    if off & 0x800:
        off -= 0x1000
    if year == 0 and mo == 0:
        return None
    if off == -2047:
        off = 0
    try:
        return calendar.timegm((year, mo, d, h, mi, s)) - off * 60, off
    except Exception:
        return 'bad', None


def true_offset_minutes(t):
    return _rt.localtime(int(t)).tm_gmtoff // 60


class C19(H.Oracle):
    prop = PROP

    def __init__(self):
        self.readings = {}       # (ns, path) -> (lo, hi) floor instants read by the creating edit
        self.all = []            # every (lo, hi) interval so far
        self.blob_ivs = {}       # blob -> intervals of every edit that gave it a UDF name (names sharing a File Entry)
        self.new_readings = None

    def on_new(self, ctx):
        rs = [int(x) for x in ctx.world.clock.n_readings and ctx.d.history and [] or []]
        # the readings of new() were taken before any op: the driver did not clear them
        r = ctx.world.clock.readings
        self.new_iv = (int(min(r)), int(max(r))) if r else (int(ctx.world.clock.now), int(ctx.world.clock.now))
        self.all.append(self.new_iv)
        ctx.world.clock.take_readings()

    def on_edit(self, ctx, op, out):
        if op.get('tz_after'):
            ctx.world.set_tz(op['tz_after'])
            ctx.probes['zone_changed_between_edits'] += 1
        r = ctx.world.clock.readings
        if not r:
            return
        iv = (int(min(r)), int(max(r)))
        self.all.append(iv)
        for ns in ('iso', 'joliet', 'udf'):
            p = op.get(ns) if op['op'] in ('add_fp', 'add_dir', 'add_symlink') else None
            if op['op'] == 'add_link' and op.get('new_ns') == ns:
                p = op['new']
            if p:
                self.readings[(ns, p)] = iv
                if ns == 'udf':
                    n = ctx.model.get('udf', p)
                    if n is not None and n.kind == 'file':
                        self.blob_ivs.setdefault(n.blob, []).append(iv)
        if op['op'] == 'add_eltorito' and ctx.model.eltorito and len(ctx.model.eltorito['entries']) == 1:
            # this call created the catalog and its names
            for ns in ctx.model.roots:
                for p, n in ctx.model.iter_ns(ns):
                    if n.blob == 'cat':
                        self.readings[(ns, p)] = iv

    def check_stamp(self, ctx, kind, got, allowed, where):
        ctx.probes['timestamps_checked'] += 1
        if got is None:
            return
        inst, offmin = got
        if inst == 'bad':
            ctx.violate((kind, 'undecodable'), where, fatal=False)
            return
        for lo, hi in allowed:
            if lo <= inst <= hi:
                tz = true_offset_minutes(inst)
                if tz < 0:
                    ctx.probes['negative_offset'] += 1
                if tz % 60 in (15, 45):
                    ctx.probes['quarter_hour_zone'] += 1
                if tz % 60 == 30:
                    ctx.probes['half_hour_zone'] += 1
                if _rt.localtime(inst).tm_isdst > 0:
                    ctx.probes['dst_in_effect'] += 1
                if _rt.localtime(inst).tm_year != _rt.gmtime(inst).tm_year:
                    ctx.probes['year_boundary_crossed_by_offset'] += 1
                if inst > 2 ** 31:
                    ctx.probes['after_2038'] += 1
                return
        # classify the error against the nearest reading
        near = min((abs(inst - lo), lo) for lo, hi in allowed)[1]
        diff = inst - near
        tz = true_offset_minutes(near)
        if offmin is not None and offmin != tz and offmin * 15 == tz:
            cls = 'offset-in-wrong-units'
        elif offmin is not None and offmin != tz and diff == (tz - offmin) * 60:
            cls = 'offset-wrong-fields-local'
        elif diff % 900 == 0:
            cls = 'off-by-quarter-hours'
        else:
            cls = 'off-by-other'
        ctx.violate((kind, cls), '%s: decodes to %d (offset %s min), nearest reading %d (zone offset %d min), diff %d s; TZ=%s' % (
            where, inst, offmin, near, tz, diff, ctx.world.tz), fatal=False)

    def on_write(self, ctx, disk, wf):
        data = bytes(disk.data)
        r = ctx.world.clock.readings
        wiv = (int(min(r)), int(max(r))) if r else (int(ctx.world.clock.now), int(ctx.world.clock.now))
        m = ctx.model
        if ctx.world.clock.mode == 'jitter':
            ctx.probes['jitter_mode'] += 1
        if ctx.world.clock.backsteps:
            ctx.probes['clock_stepped_back'] += 1
        img = dec_iso.decode(data)
        if not img.pvds:
            return
        allv = self.all + [wiv]
        fields = []       # (offset, length, kind) of every timestamp field, for the identity check
        for vd in img.vds:
            if vd.type in (1, 2):
                base = vd.sector * 2048
                for nm, off in (('creation', 813), ('modification', 830), ('expiration', 847), ('effective', 864)):
                    raw = vd.raw[off:off + 17]
                    ctx.probes['vd_dates'] += 1
                    if nm == 'modification':
                        self.check_stamp(ctx, 'vd-' + nm, inst17(raw), [wiv], 'VD@%d %s' % (vd.sector, nm))
                    elif nm == 'creation':
                        self.check_stamp(ctx, 'vd-' + nm, inst17(raw), [self.new_iv] if m.generation == 0 or True else allv, 'VD@%d %s' % (vd.sector, nm))
                        fields.append((base + off, 17, 'vd-' + nm))
                    elif nm == 'expiration':
                        exp = m.cfg.get('vol_expire_date')
                        if exp:
                            ctx.probes['expiration_date_given'] += 1
                            self.check_stamp(ctx, 'vd-' + nm, inst17(raw), [(int(exp), int(exp))], 'VD@%d %s' % (vd.sector, nm))
                        fields.append((base + off, 17, 'vd-' + nm))
                    else:
                        # "effective": pycdlib records the creation instant
                        self.check_stamp(ctx, 'vd-' + nm, inst17(raw), [self.new_iv], 'VD@%d %s' % (vd.sector, nm))
                        fields.append((base + off, 17, 'vd-' + nm))
        sus = None
        for ns, t in img.trees.items():
            if ns == 'enhanced' or t.root is None:
                continue
            if ns == 'iso' and m.rr:
                sus = dec_susp.SuspDecoder(img, data)
                sus.decode_tree(t)
            for d in t.dirs:
                for i, rec in enumerate(d.children or []):
                    if i < 2:
                        allowed = allv
                    else:
                        iv = self.readings.get((ns, rec.path))
                        allowed = [iv] if iv else allv
                    ctx.probes['dr_dates'] += 1
                    self.check_stamp(ctx, 'dr-date', inst7(rec.date), allowed, '%s record %r' % (ns, rec.path or rec.name))
                    fields.append((rec.off + 18, 7, 'dr-date'))
                    if sus is not None and ns == 'iso':
                        info = sus.info.get(id(rec))
                        if info is not None:
                            for nm, (raw, off) in info.tf.items():
                                ctx.probes['rr_tf_stamps'] += 1
                                self.check_stamp(ctx, 'rr-tf-' + nm, inst7(raw) if len(raw) == 7 else inst17(raw), allowed, 'TF %s of %r' % (nm, rec.path or rec.name))
                                fields.append((off, len(raw), 'rr-tf-' + nm))
        if m.has('udf'):
            u = dec_udf.decode(data)
            by_fe = {}
            for p, e in u.entries.items():
                by_fe.setdefault(e.fe_abs, []).append(p)
            for off, raw, meaning in u.timestamps:
                ctx.probes['udf_timestamps'] += 1
                allowed = allv
                if meaning.startswith('fe.'):
                    # names that share one File Entry: the entry was stamped by one of the edits that made them
                    ivs = [self.readings.get(('udf', p)) for p in by_fe.get(off - (off % 2048), [])]
                    ivs = [iv for iv in ivs if iv]
                    for p in by_fe.get(off - (off % 2048), []):
                        n = m.get('udf', p)
                        if n is not None and n.kind == 'file':
                            ivs += self.blob_ivs.get(n.blob, [])
                    if ivs:
                        allowed = ivs
                self.check_stamp(ctx, 'udf-' + meaning, inst_udf(raw), allowed, 'UDF %s @%d' % (meaning, off))
                fields.append((off, 12, 'udf-' + meaning))
        # parse o record = identity: reopen under another TZ and instant, write again
        w = ctx.world
        rr_ = w.rng('c19.remaster.%d' % ctx.writes)
        old_tz, old_now = w.tz, w.clock.now
        w.set_tz(rr_.choice(W.TZ_CATALOGUE))
        w.clock.now = float(W.World.pick_instant(rr_))
        if rr_.random() < 0.5:
            # what another writer may have recorded: hundredths of a second other than 00 in the 17-byte dates (the library
            # itself always writes 00); parse then record must give them back
            ba = bytearray(data)
            for off, ln, kind in fields:
                if ln == 17 and kind.startswith('vd-') and ba[off:off + 4] != b'0000':
                    ba[off + 14:off + 16] = ('%02d' % rr_.choice((1, 5, 7, 9, 10, 42, 70, 99))).encode()
            data = bytes(ba)
            ctx.probes['remaster_with_foreign_hundredths'] += 1
        try:
            iso2 = ctx.d.pm.PyCdlib()
            iso2.open_fp(SimFile(SimDisk('c19in', data), 'rb'))
            out = SimDisk('c19out')
            iso2.write_fp(SimFile(out, 'wb'))
            b2 = bytes(out.data)
            ctx.probes['remaster_identity_checked'] += 1
            if len(b2) == len(data):
                for off, ln, kind in fields:
                    if data[off:off + ln] != b2[off:off + ln]:
                        ctx.violate((kind, 'not-identity-after-reopen-under-other-zone'), 'field at %d: %s -> %s (TZ %s -> %s)' % (
                            off, data[off:off + ln].hex(), b2[off:off + ln].hex(), old_tz, w.tz), fatal=False)
                        break
        except Exception as e:
            ctx.stats['remaster_failed:%s' % type(e).__name__] += 1
        finally:
            w.set_tz(old_tz)
            w.clock.now = old_now
            w.clock.take_readings()


def generate(seed, tier='quick'):
    plan = H.generate(seed, PROFILE)
    # the process changes its time zone between two edits (a service mastering for several zones): under a frozen clock the
    # same epoch second is then recorded under two zones
    r = W.World(seed).rng('c19.zonechange')
    if r.random() < 0.35:
        for op in plan['ops']:
            if op['op'] != 'restart' and r.random() < 0.25:
                op['tz_after'] = r.choice(W.TZ_CATALOGUE)
    return plan


def execute(plan):
    r = H.execute(plan, C19())
    r['nontrivial'] = r['nontrivial'] and r['probes'].get('timestamps_checked', 0) >= 10
    hb = int(plan['env']['clock0']) // 3600 % 24
    r['fingerprint'] = hashlib.blake2b(repr((plan['env']['tz'], hb, sorted(plan['cfg'].items(), key=str))).encode(), digest_size=8).hexdigest()
    return r


def sample_of(plan):
    return {'cfg': plan['cfg'], 'env': plan['env'], 'ops': plan['ops'][:8]}
