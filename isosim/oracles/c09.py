"""C09 - Joliet fidelity: an independent tree of UCS-2 names over shared data."""
from .. import hist as H
from .. import gen as G
from .. import model as M
from .. import observe as O
from .. import dec_iso, decview

PROP = 'C09'
LEVEL = 'exploration'
RULE = ('HIST histories on Joliet levels 1-3 with divergent trees (Joliet-only and ISO-only entries, different nesting), Unicode names '
        '(ASCII, Latin-1, BMP, non-BMP; 1..64 characters), edits, removals, restarts; every written image is decoded from its supplementary '
        'volume descriptor by isosim/dec_iso.py with UCS-2BE names; in 60% of the runs one file with a Joliet name is then modified in place on '
        'the final image and the Joliet tree decoded again; a final doomed call with a name of more than 64 characters (or of at most 64 code points that need more than 64 UCS-2 units) must be refused; '
        'non-trivial: >= 3 accepted edits, >= 1 write, >= 1 Joliet entry; distinct = model shape fingerprints')
BUDGET = {'quick': 40, 'thorough': 900}
PROBES = ['short_volume_size_remastered', 'joliet_trees_decoded', 'joliet_only_entry', 'iso_only_entry', 'non_bmp_name', 'name_64_chars', 'shared_extent_checked',
          'doomed_long_name_refused', 'joliet_dir_multi_sector', 'modified_in_place_then_decoded']
ASSUMPTIONS = ['isosim/dec_iso.py decodes SVD names as UTF-16BE (Joliet: UCS-2BE; surrogate pairs tolerated)']


def cfg_fn(r):
    cfg = G.swarm_config(r)
    cfg['joliet'] = r.choice((1, 2, 3, 3))
    return G.clamp_config(cfg)


def post_gen(plan, w, model):
    """Append a doomed call: a Joliet name pycdlib's documentation says it cannot hold (> 64 characters)."""
    r = w.rng('c09doomed')
    n = r.choice((65, 66, 70, 100, 128, 200))
    pool = G.RRCHARS.replace('.', '') + (G.UNI_BMP if r.random() < 0.4 else '')
    name = ''.join(r.choice(pool) for _ in range(n))
    if r.random() < 0.35:
        # not more than 64 code points, but more than 64 UCS-2 units (characters beyond the BMP take two)
        k = r.choice((33, 34, 40, 50, 64))
        name = ''.join(r.choice(G.UNI_ASTRAL) for _ in range(k))
        if r.random() < 0.5:
            name = name[:k - 2] + r.choice(('ab', '.x', '中a'))
    parent = r.choice(model.dirs('joliet'))
    path = M.join(parent, name)
    if r.random() < 0.5:
        op = {'op': 'add_dir', 'joliet': path}
    else:
        op = {'op': 'add_fp', 'blob': 900000, 'len': 100, 'joliet': path, 'route': 'fp'}
    op.update({'expect': 'refuse', 'cause': 'joliet-name-longer-than-64', 'valid_otherwise': True, 'dt': 0.0})
    plan['ops'].append(op)
    plan['ops'].append({'op': 'restart', 'dt': 0.0})


PROFILE = H.Profile('c09', nops=(3, 24), cfg_fn=cfg_fn, post_gen=post_gen,
                    weights={'add_fp': 30, 'add_dir': 20, 'add_link': 10, 'rm_file': 8, 'rm_dir': 6, 'rm_link': 6, 'hide': 4, 'dup_pvd': 0,
                             'add_eltorito': 2, 'add_isohybrid': 0, 'restart': 5, 'mass_dirs': 2, 'mass_files': 2, 'twin_links': 4})

ESC = {1: b'%/@', 2: b'%/C', 3: b'%/E'}


def check_image(ctx, data):
    m = ctx.model
    img = dec_iso.decode(data)
    jvd = [v for v in img.svds if v.kind == 'joliet']
    if not jvd:
        ctx.violate(('joliet/no-svd',), 'Joliet image without a Joliet supplementary volume descriptor')
        return
    ctx.probes['joliet_trees_decoded'] += 1
    want_level = m.cfg['joliet']
    if jvd[0].raw[88:91] != ESC[want_level]:
        ctx.violate(('joliet/escape-sequence', str(want_level)), 'got %r' % jvd[0].raw[88:91], fatal=False)
    if jvd[0].raw[7] & 1:
        ctx.violate(('joliet/volume-flags',), 'bit 0 set although the escape sequences are ISO 2375 registered', fatal=False)
    hard = False
    for a in img.anoms:
        if '@joliet' in a.rule or a.rule.startswith('joliet/'):
            ctx.violate((a.rule,), repr(a), fatal=False)
            if not a.rule.startswith('ecma119.9.3/order'):
                hard = True
    if hard:
        return
    jt = img.trees.get('joliet')
    mm = decview.compare_with_model(img, data, m, ('joliet',))
    if mm:
        ctx.violate(('joliet-view',) + O.mismatch_sig(mm[0]), 'path=%r expected=%r decoded=%r (+%d more)' % (mm[0][2], mm[0][3], mm[0][4], len(mm) - 1))
        return
    # each Joliet file points at the same data sectors as its ISO9660 link
    it = img.trees.get('iso')
    for bid, b in m.blobs.items():
        if b.length == 0:
            continue
        names = m.names_of_blob(bid)
        jn = [p for ns, p in names if ns == 'joliet']
        inn = [p for ns, p in names if ns == 'iso']
        if jn and not inn:
            ctx.probes['joliet_only_entry'] += 1
        if inn and not jn:
            ctx.probes['iso_only_entry'] += 1
        ext = set()
        for p in jn:
            r = jt.entries.get(p)
            if r is not None:
                ext.add((r.extent, r.size))
        for p in inn:
            r = it.entries.get(m.phys('iso', p)) if it else None
            if r is not None and not r.parts:
                ext.add((r.extent, r.size))
        if jn and inn:
            ctx.probes['shared_extent_checked'] += 1
        if len(ext) > 1:
            ctx.violate(('joliet/link-extent-differs',), 'blob %d: %r' % (bid, sorted(ext)), fatal=False)
    for p, n in m.iter_ns('joliet'):
        nm = p.rsplit('/', 1)[1]
        if len(nm) == 64:
            ctx.probes['name_64_chars'] += 1
        if any(ord(c) > 0xffff for c in nm):
            ctx.probes['non_bmp_name'] += 1
    for d in jt.dirs:
        if d.size > 2048:
            ctx.probes['joliet_dir_multi_sector'] += 1
            break


def short_volume_size_epilogue(ctx, rate=0.25):
    """A stored fault in the image another writer (or a bit of damage) may leave: the volume space size in every descriptor
    stops a few sectors short of the end of the last file.  The library repairs that on open; after open + write the Joliet
    descriptor must carry the same size as the primary one, and the image be as long as both say."""
    import struct
    from isosim.disk import SimDisk, SimFile
    m = ctx.model
    disk = ctx.last_disk
    if disk is None or m.hybrid or m.has('udf') or 'joliet' not in m.roots:
        return
    r = ctx.world.rng('short-size-epilogue')
    if r.random() > rate:
        return
    data = bytearray(disk.data)
    img = dec_iso.decode(bytes(data))
    if not img.pvds or any(not a.rule.startswith('ecma119.9.3/order') for a in img.anoms):
        return
    space = img.pvds[0].space_size
    # the last file must end where the volume ends, or nothing tells the library that the size is short
    t = img.trees.get('iso')
    ends = [rec.extent + (rec.size + 2047) // 2048 for rec in (t.records if t else []) if not rec.is_dir and rec.size > 0]
    if not ends or max(ends) != space:
        return
    short = space - r.choice((1, 1, 2))
    for vd in img.pvds + [v for v in img.svds if v.kind in ('joliet', 'enhanced')]:
        off = vd.sector * 2048 + 80
        data[off:off + 8] = struct.pack('<L', short) + struct.pack('>L', short)
    iso = ctx.d.pm.PyCdlib()
    out = SimDisk('short-size-out')
    try:
        iso.open_fp(SimFile(SimDisk('short-size-in', bytes(data)), 'rb'))
        iso.write_fp(SimFile(out, 'wb'))
        iso.close()
    except Exception as e:      # noqa
        ctx.stats['short_size_not_remastered:%s' % type(e).__name__] += 1
        return
    ctx.probes['short_volume_size_remastered'] += 1
    img2 = dec_iso.decode(bytes(out.data))
    sizes = {(v.kind if hasattr(v, 'kind') else 'pvd'): v.space_size for v in img2.pvds[:1]}
    for v in img2.svds:
        if v.kind in ('joliet', 'enhanced'):
            sizes[v.kind] = v.space_size
    if len(set(sizes.values())) > 1:
        ctx.violate(('joliet/volume-space-size-differs-from-primary-after-short-size-repair',), repr(sizes), fatal=False)
    elif img2.pvds and img2.pvds[0].space_size * 2048 != len(out.data):
        ctx.violate(('joliet/volume-space-size-vs-image-length-after-short-size-repair',), '%d sectors declared, image %d bytes' % (img2.pvds[0].space_size, len(out.data)), fatal=False)


class C09(H.Oracle):
    prop = PROP

    def on_write(self, ctx, disk, wf):
        check_image(ctx, bytes(disk.data))

    def on_end(self, ctx):
        H.inplace_epilogue(ctx, 'joliet', check_image)
        short_volume_size_epilogue(ctx)

    def on_doomed(self, ctx, op, out):
        if out.ok:
            ctx.violate(('refusal', 'joliet-name-longer-than-64', 'accepted', op['op']), 'a %d-character Joliet name was accepted' % len(op['joliet'].rsplit('/', 1)[1]))
        elif out.etype != 'PyCdlibInvalidInput':
            ctx.violate(('refusal', 'joliet-name-longer-than-64', 'wrong-exception', out.etype, out.where), out.msg, fatal=False)
        else:
            ctx.probes['doomed_long_name_refused'] += 1


def generate(seed, tier='quick'):
    return H.generate(seed, PROFILE)


def execute(plan):
    r = H.execute(plan, C09())
    return r


def sample_of(plan):
    return {'cfg': plan['cfg'], 'env': plan['env'], 'ops': plan['ops'][:12]}
