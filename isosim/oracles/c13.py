"""C13 - namespace rules: unique names, legal identifiers, refused otherwise."""
import re

from .. import hist as H
from .. import gen as G
from .. import model as M
from .. import doomed
from .. import dec_iso, dec_udf
from ..disk import SimDisk, SimFile

PROP = 'C13'
LEVEL = 'exploration'
RULE = ('HIST histories with a refusal-heavy mix: ordinary edits, re-adds of names that were removed (as file or as directory; must be accepted), '
        'the same name in another namespace, and then 1-3 doomed calls drawn from a catalogue computed against the model (duplicate identifier '
        'in the 1st/2nd/3rd namespace via add_fp/add_directory/add_hard_link/add_symlink, identifiers illegal for the level, versions out of '
        'range, two semicolons, level-1 8.3, directory name lengths, depth 9, Joliet > 64 characters); each doomed call must raise '
        'PyCdlibInvalidInput at the edit; every written image is decoded and checked for duplicate identifiers and for the naming rules of its '
        'level.  The pure accept/refuse boundary over all byte strings is only sampled through the name grammar (input generation, not simulation). '
        'non-trivial: >= 3 accepted edits, >= 1 write, >= 1 doomed call applied; distinct = (model shape, doomed causes)')
BUDGET = {'quick': 40, 'thorough': 900}
PROBES = ['doomed_refused', 'readd_accepted', 'same_name_other_namespace', 'images_rule_checked', 'doomed_on_parsed_state', 'long_name_probe']
ASSUMPTIONS = ['only rules the documentation or the property states are MUST_REFUSE (DESIGN.md Appendix B); everything else is EITHER']

DCH = set(b'ABCDEFGHIJKLMNOPQRSTUVWXYZ0123456789_')


def post_gen(plan, w, model):
    r0 = w.rng('c13.where')
    if r0.random() < 0.5 and plan['ops'] and plan['ops'][-1]['op'] == 'restart':
        # the doomed call goes to the object as the edits left it (not to parsed state)
        plan['ops'].pop()
        model.generation -= 1
    g = G.OpGen(w.rng('c13.ops'), w.rng('c13.args'), model)
    g.next_blob = 700000
    dg = doomed.DoomedGen(g)
    r = w.rng('c13.n')
    if (model.rr and model.cfg['level'] < 4 and not model.rr_moved and model.rr_moved_name is None and r.random() < 0.12):
        # the one refusal whose residue would show as an illegal identifier in the image: a refused name for the relocation
        # directory, then the first relocation
        bad = dg.bad_relocated_name()
        if bad is not None and bad['cause'].endswith('bad-identifier'):
            plan['ops'].append(bad)
            chain = []
            base = '/'
            for i in range(8):
                nm = 'RL%d' % i
                if model.get('iso', M.join(base, nm)) is not None:
                    chain = None
                    break
                chain.append({'op': 'add_dir', 'iso': M.join(base, nm), 'rr': 'rl%d' % i, 'dt': 0.0})
                base = M.join(base, nm)
            if chain:
                plan['ops'].extend(chain)
                plan['ops'].append({'op': 'restart', 'dt': 1.0})
            return
    # exactly one doomed call per run, as the last step: a refused call that leaves something behind (C14's
    # business) must not colour the verdict on the next one
    if r.random() < 0.7:
        op = dg.any(doomed.DoomedGen.NAME_RULE_GENS)
        if op is not None:
            plan['ops'].append(op)
    # an identifier that may not fit its on-disc field: accepted-or-refused is open, accepted-then-unwritable is not
    else:
        lvl = model.cfg['level']
        kind = r.choice(('iso-long', 'udf-long-latin1', 'udf-long-ucs2', 'rr-long'))
        op = None
        if kind == 'iso-long' and lvl >= 2:
            n = r.choice((200, 207, 208, 212, 222, 240, 250, 255, 300))
            ch = 'A'
            op = {'op': 'add_fp', 'blob': 790000, 'len': 10, 'iso': '/' + ch * n + '.;1', 'route': 'fp'}
            if model.rr:
                op['rr'] = 'longiso'
        elif kind.startswith('udf') and model.has('udf'):
            nm = ('é' * r.choice((127, 200, 254, 255, 256, 300))) if kind.endswith('latin1') else ('中' * r.choice((100, 127, 128, 130, 200)))
            op = {'op': 'add_fp', 'blob': 790001, 'len': 10, 'udf': '/' + nm, 'route': 'fp'}
        elif kind == 'rr-long' and model.rr:
            n = r.choice((256, 300, 500, 1000, 1100))
            op = {'op': 'add_fp', 'blob': 790002, 'len': 10, 'iso': '/RRLONG.;1', 'rr': 'r' * n, 'route': 'fp'}
        if op is not None and M.valid(model, {k: v for k, v in op.items()}):
            op.update({'expect': 'either-but-writable', 'cause': 'field-capacity:' + kind, 'dt': 0.0})
            plan['ops'].append(op)


PROFILE = H.Profile('c13', nops=(3, 20), post_gen=post_gen,
                    weights={'re_add': 12, 'rm_file': 12, 'rm_dir': 8, 'rm_link': 8, 'add_fp': 26, 'add_dir': 18, 'add_link': 8, 'dup_pvd': 0,
                             'add_isohybrid': 0, 'add_eltorito': 1, 'restart': 5, 'chain_dirs': 2.5})


def check_names(ctx, data):
    m = ctx.model
    img = dec_iso.decode(data)
    if not img.pvds:
        return
    ctx.probes['images_rule_checked'] += 1
    for a in img.anoms:
        if 'duplicate-identifier' in a.rule:
            ctx.violate(('image', a.rule), repr(a), fatal=False)
    lvl = m.cfg['level']
    t = img.trees.get('iso')
    if t is not None:
        for rec in t.records:
            ident = rec.ident
            if rec.is_dir:
                if lvl < 4 and not set(ident) <= DCH:
                    ctx.violate(('image', 'iso-dir-identifier-not-d-characters', 'level=%d' % lvl), repr(ident), fatal=False)
                if lvl == 1 and len(ident) > 8:
                    ctx.violate(('image', 'iso-dir-identifier-longer-than-8', 'level=1'), repr(ident), fatal=False)
                if lvl in (2, 3) and len(ident) > 207:
                    ctx.violate(('image', 'iso-dir-identifier-longer-than-207', 'level=%d' % lvl), repr(ident), fatal=False)
            else:
                mt = re.match(rb'^([^;]*?)(?:\.([^.;]*))?(?:;(\d+))?$', ident, re.S)
                if mt is None or ident.count(b';') > 1:
                    if lvl < 4:
                        ctx.violate(('image', 'iso-file-identifier-malformed', 'level=%d' % lvl), repr(ident), fatal=False)
                    continue
                name, ext, ver = mt.group(1) or b'', mt.group(2) or b'', mt.group(3)
                if lvl < 4 and not (set(name) <= DCH and set(ext) <= DCH):
                    ctx.violate(('image', 'iso-file-identifier-not-d-characters', 'level=%d' % lvl), repr(ident), fatal=False)
                if lvl == 1 and (len(name) > 8 or len(ext) > 3):
                    ctx.violate(('image', 'iso-file-identifier-not-8.3', 'level=1'), repr(ident), fatal=False)
                if ver is not None and not 1 <= int(ver) <= 32767:
                    ctx.violate(('image', 'iso-file-version-out-of-range'), repr(ident), fatal=False)
                if not name and not ext:
                    ctx.violate(('image', 'iso-file-identifier-empty'), repr(ident), fatal=False)
        if not m.rr and lvl < 4:
            for d in t.dirs:
                if d.path != '/' and d.path.count('/') > 7:
                    ctx.violate(('image', 'iso-depth-greater-than-8'), d.path, fatal=False)
                    break
    jt = img.trees.get('joliet')
    if jt is not None:
        for rec in jt.records:
            if len(rec.ident) > 128:
                ctx.violate(('image', 'joliet-identifier-longer-than-64-characters'), repr(rec.name), fatal=False)
    if m.has('udf'):
        u = dec_udf.decode(data)
        for a in u.anoms:
            if 'duplicate-file-identifier' in a.rule:
                ctx.violate(('image', a.rule), repr(a), fatal=False)


class C13(H.Oracle):
    prop = PROP

    def on_edit(self, ctx, op, out):
        if op.get('_readd'):
            ctx.probes['readd_accepted'] += 1

    def on_edit_refused(self, ctx, op, out):
        if op.get('_readd'):
            # re-adding a name that was removed is not an edit that breaks a rule
            ctx.violate(('refused-legal-edit', 're-add-of-removed-name', op['op'], out.etype, out.where), out.msg)
            return
        super().on_edit_refused(ctx, op, out)

    def on_write(self, ctx, disk, wf):
        check_names(ctx, bytes(disk.data))

    def doomed_applicable(self, ctx, op):
        if op.get('expect') == 'either-but-writable':
            return M.valid(ctx.model, {k: v for k, v in op.items() if k not in ('expect', 'cause')})
        return super().doomed_applicable(ctx, op)

    def on_doomed(self, ctx, op, out):
        api = op['op']
        cause = op['cause']
        if ctx.model.generation > 0:
            ctx.probes['doomed_on_parsed_state'] += 1
        if op.get('expect') == 'either-but-writable':
            ctx.probes['long_name_probe'] += 1
            if out.ok:
                try:
                    ctx.d.iso.write_fp(SimFile(SimDisk('scratch'), 'wb'))
                except Exception as e:
                    from ..driver import Outcome
                    o2 = Outcome(False, e)
                    ctx.violate(('accepted-then-write-fails', cause, o2.etype, o2.where), 'the edit was accepted; write_fp then raised %s: %s' % (o2.etype, o2.msg))
                    return
                ctx.status = 'ok'
                ctx.stop = True
            elif out.etype != 'PyCdlibInvalidInput':
                ctx.violate(('refusal', 'wrong-exception', cause, out.etype, out.where), out.msg, fatal=False)
            return
        if out.ok:
            ctx.violate(('refusal', 'accepted', cause.split(':namespace-')[0]), 'the call was accepted: %r' % {k: v for k, v in op.items() if k not in ('expect', 'dt')})
        elif out.etype != 'PyCdlibInvalidInput':
            ctx.violate(('refusal', 'wrong-exception', cause.split(':namespace-')[0], out.etype, out.where), out.msg, fatal=False)
        else:
            ctx.probes['doomed_refused'] += 1


def generate(seed, tier='quick'):
    return H.generate(seed, PROFILE)


def execute(plan):
    r = H.execute(plan, C13())
    r['nontrivial'] = r['nontrivial'] and any(k.startswith('doomed:') for k in r['stats'])
    causes = sorted(op.get('cause', '').split(':')[0] for op in plan['ops'] if op.get('expect'))
    import hashlib
    r['fingerprint'] = hashlib.blake2b((r['fingerprint'] + repr(causes)).encode(), digest_size=8).hexdigest()
    return r


def sample_of(plan):
    return {'cfg': plan['cfg'], 'env': plan['env'], 'ops': plan['ops'][-8:]}
