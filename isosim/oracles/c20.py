"""C20 - tools round trip: pycdlib-genisoimage then pycdlib-extract-files.

Both tools are loaded in-process (SourceFileLoader), sys.argv is set, stdout
is captured and the genisoimage module's ``os`` global is replaced by a shim
whose ``listdir`` returns a seed-chosen permutation (collision numbering and
duplicate linking depend on enumeration order - the one genuinely
environmental input of the tools).  A source tree drawn from a grammar is
materialised in a per-run scratch directory (removed before the run returns),
an image is built with a seed-chosen option set, decoded with the independent
decoders and extracted once per requested view.

Oracle (from the property text only):
  * for each requested long-name view (Rock Ridge, Joliet, UDF) the extracted
    tree equals the source tree minus what exclude/hide options remove: same
    relative paths, same bytes, same symlink targets (Joliet cannot represent
    a symbolic link: there a source symlink is EITHER);
  * in the ISO9660 view every source file appears exactly once, in the
    directory it came from, under an identifier that is legal for the
    requested level (tree shapes with content keys are compared, names are
    checked for legality, distinctness is implied by the shape comparison);
  * the image carries exactly the requested extensions (decoders);
  * with -scan-for-duplicates every path still reads its own bytes.
A mismatch is attributed to 'build' when the independent decoders see the same
mismatch in the image and to 'extract' otherwise."""
import contextlib
import hashlib
import importlib.util
import io
import json
import os
import random
import re
import shutil
import struct
import sys
import tempfile
import traceback
from collections import Counter
from importlib.machinery import SourceFileLoader

from .. import world as W
from .. import dec_iso, dec_susp, dec_udf, dec_boot, decview
from ..content import blob_bytes
from ..driver import stem

PROP = 'C20'
LEVEL = 'exploration'
RULE = ('one run = one source tree (grammar: names colliding after mangling, case variants, multiple dots, Unicode, long names, nesting, empty '
        'files and directories, symlinks, identical contents, equal sizes with different contents, crafted 32-bit hash collisions) x one option set '
        '(-iso-level 1-4, -r/-R/none, -J, -udf, -scan-for-duplicates, El Torito options, -m/-hide/-hide-joliet/-hidden patterns) x one seeded '
        'os.listdir permutation; the built image is decoded independently and extracted once per requested view (plus auto and a -start-path '
        'subtree); extracted trees are compared with the source tree path by path and byte by byte; non-trivial: >= 4 source entries and at '
        'least one long-name view requested; distinct = distinct (option set, tree shape) fingerprints')
BUDGET = {'quick': 40, 'thorough': 900}
PROBES = ['views_extracted', 'rr_view', 'joliet_view', 'udf_view', 'iso_only', 'symlink_in_tree', 'collision_after_mangling', 'dup_linked_candidates',
          'same_size_different_content', 'crafted_hash_collision', 'eltorito', 'boot_info_table', 'exclude_hit', 'hide_hit', 'deep_tree', 'unicode_name',
          'empty_dir', 'empty_file', 'start_path', 'auto_view', 'level4', 'many_siblings']
ASSUMPTIONS = ['names are kept within what each requested view can represent (Joliet <= 64 UCS-2 characters, BMP only; UDF <= 254 bytes; ISO level 4 '
               '<= 200 bytes) and trees deeper than 7 levels are generated only with Rock Ridge, as genisoimage documents',
               'a Joliet view may show a source symlink as anything or not at all',
               'bytes 8..63 of a boot file built with -boot-info-table are exempt',
               'the boot catalog is an extra file in every view; a source file at the catalog path is not generated']
SHRINK_LIST_KEYS = ['tree', 'extract']
CHUNK = 4

TOOLS = os.path.join(W.REPO if hasattr(W, 'REPO') else '/repo', 'tools')
_mods = {}


def _load(name):
    if name not in _mods:
        W.ensure_repo_on_path()
        path = os.path.join(TOOLS, name)
        loader = SourceFileLoader('c20_' + name.replace('-', '_'), path)
        spec = importlib.util.spec_from_loader(loader.name, loader)
        m = importlib.util.module_from_spec(spec)
        loader.exec_module(m)
        _mods[name] = m
    return _mods[name]


class OsShim:
    """The tool's ``os``: everything real except the order of listdir."""

    def __init__(self, seed):
        self._seed = seed
        self.path = os.path

    def listdir(self, p):
        names = sorted(os.listdir(p))
        r = random.Random(W.h64('listdir', self._seed, os.path.basename(p), len(names)))
        r.shuffle(names)
        return names

    def __getattr__(self, name):
        return getattr(os, name)


# ---------------------------------------------------------------------------
# murmur3 collision crafting (the tool links files whose size and 32-bit hash agree)

C1, C2 = 0xcc9e2d51, 0x1b873593
M32 = 0xFFFFFFFF
INV5 = pow(5, -1, 1 << 32)
INVC1 = pow(C1, -1, 1 << 32)
INVC2 = pow(C2, -1, 1 << 32)


def _rotl(x, n):
    return ((x << n) | (x >> (32 - n))) & M32


def _mm3_state(data, h1=0):
    """h1 after the body blocks of a 4-aligned message (before tail/fmix)."""
    for i in range(0, len(data), 4):
        k1 = struct.unpack_from('<I', data, i)[0]
        k1 = (C1 * k1) & M32
        k1 = _rotl(k1, 15)
        k1 = (C2 * k1) & M32
        h1 ^= k1
        h1 = _rotl(h1, 13)
        h1 = (h1 * 5 + 0xe6546b64) & M32
    return h1


def craft_collision(a):
    """A byte string of len(a) (multiple of 4, < 32 KiB) that differs from a but has the same murmur3-32."""
    assert len(a) % 4 == 0 and 8 <= len(a) < 32 * 1024
    target = _mm3_state(a)
    body = bytearray(a[:-4])
    body[0] ^= 0xff
    prev = _mm3_state(bytes(body))
    x = ((target - 0xe6546b64) * INV5) & M32
    y = _rotl(x, 19)              # rotr 13
    k1p = y ^ prev
    k1 = (INVC1 * _rotl((INVC2 * k1p) & M32, 17)) & M32
    return bytes(body) + struct.pack('<I', k1)


# ---------------------------------------------------------------------------
# generation

PLAIN = ['readme.txt', 'data.bin', 'notes', 'index.htm', 'a', 'b.c', 'setup.exe', 'lib.so', 'x.y', 'main.py', 'img.jpg', 'doc.pdf', 'k', 'zz.z']
UNI = ['héllo.txt', 'файл.dat', 'データ', 'naïve café.md', 'über.cfg', '中文文件.txt', 'αβγ']
ODD = ['archive.tar.gz', '.hidden', '.profile.bak', 'name.', 'two..dots', 'file.jpeg', 'UPPER.TXT', 'MiXed.Case', 'with space.txt', 'a+b=c.txt',
       'semi;colon', 'tilde~', 'hash#tag', 'back.bak', '-dash', 'a,b', "quote'", '(paren)', 'x' * 30 + '.txt', 'y' * 31, 'CON', '1', '00000000.000']
STEMS = ['longname', 'report', 'chapter', 'img_', 'IMG_', 'file', 'New Folder', 'abcdefgh', 'abcde']


def gen_name(r, o, used, isdir):
    for _ in range(50):
        k = r.random()
        if k < 0.3:
            n = r.choice(PLAIN)
        elif k < 0.45:
            n = r.choice(ODD)
        elif k < 0.55:
            n = r.choice(UNI)
        elif k < 0.8:
            # families that collide after mangling
            st = r.choice(STEMS)
            n = st + r.choice(['', '_', ' ', '-']) + r.choice(['a', 'b', '1', '2', '10', 'final', 'final2', 'FINAL']) + r.choice(['', '.txt', '.TXT', '.dat', '.text'])
            if r.random() < 0.3:
                n = r.choice((n.upper(), n.lower(), n.capitalize()))
        elif k < 0.9:
            ln = r.choice((8, 9, 12, 13, 29, 30, 31, 32, 37, 60, 63, 64))
            n = ''.join(r.choice('abcdefghijklmnopqrstuvwxyzABC0123456789_-') for _ in range(ln))
            if r.random() < 0.5 and ln > 5:
                n = n[:ln - 4] + '.' + n[ln - 3:]
        else:
            ln = r.choice((65, 100, 150, 200))
            n = ''.join(r.choice('abcdefghijklmnopqrstuvwxyz0123456789') for _ in range(ln))
        if isdir and r.random() < 0.6:
            n = n.replace('.', '_') if r.random() < 0.5 else n
        limit = 200
        if o['joliet']:
            limit = 64
        if len(n) > limit:
            n = n[:limit]
        if len(n.encode('utf-8')) > 200:
            continue
        if n in ('', '.', '..') or '/' in n or '\x00' in n:
            continue
        if n in used:
            continue
        return n
    return None


def gen_options(r):
    o = {}
    o['iso_level'] = r.choice((1, 1, 2, 3, 3, 4))
    o['rock'] = r.choice((None, 'r', 'r', 'R', 'R'))
    o['rrip'] = r.choice((None, None, None, '110', '112')) if o['rock'] else None
    o['joliet'] = r.random() < 0.5
    o['udf'] = r.random() < 0.4
    if r.random() < 0.1:
        o['rock'], o['rrip'], o['joliet'], o['udf'] = None, None, False, False
    o['dups'] = r.random() < 0.4
    o['exclude'] = []
    o['hide'] = []
    o['hide_joliet'] = []
    o['hidden'] = []
    pats = ['*.bak', '*.txt', 'notes', 'data.*', '*~', 'IMG_*', '*final*', '.*', 'a', '*.TXT', 'longname*']
    if r.random() < 0.25:
        o['exclude'] = r.sample(pats, r.randint(1, 2))
    if r.random() < 0.2:
        o['hide'] = r.sample(pats, 1)
    if o['joliet'] and r.random() < 0.15:
        o['hide_joliet'] = r.sample(pats, 1)
    o['hide_udf'] = []
    if o['udf'] and r.random() < 0.2:
        o['hide_udf'] = r.sample(pats, 1)
    if r.random() < 0.15:
        o['hidden'] = r.sample(pats, 1)
    o['exclude_flag'] = r.choice(('-m', '-x', '-exclude'))
    o['boot'] = None
    if r.random() < 0.25:
        o['boot'] = {'dir': r.choice(('', 'boot', 'isolinux')), 'name': r.choice(('isolinux.bin', 'boot.img', 'loader')),
                     'cat': r.choice(('boot.cat', 'boot.catalog', 'b.c')), 'bit': r.random() < 0.5, 'load_size': r.choice((None, 4, 4, 8)),
                     'len': r.choice((2048, 2049, 4096, 10000, 32768)), 'efi': r.random() < 0.3}
    return o


def generate(seed, tier='quick'):
    w = W.World(seed)
    r = w.rng('c20')
    o = gen_options(r)
    tree = []
    dirs = ['']
    depth = {'': 0}
    used = {'': set()}
    maxdepth = 7
    if o['rock'] and r.random() < 0.12:
        maxdepth = 10
    n = r.choice((1, 3, 5, 8, 12, 20, 30)) if r.random() < 0.9 else r.randint(30, 70)
    blob = 1
    blobs = []           # (id, len)
    extra = {}           # path -> {'collide_with': path}
    pending_boot = o['boot']
    if pending_boot:
        bd = pending_boot['dir']
        if bd:
            tree.append({'p': bd, 'k': 'd'})
            dirs.append(bd)
            depth[bd] = 1
            used[''].add(bd)
            used[bd] = set()
        bp = (bd + '/' if bd else '') + pending_boot['name']
        tree.append({'p': bp, 'k': 'f', 'blob': blob, 'len': pending_boot['len'], 'boot': True})
        used[bd].add(pending_boot['name'])
        used[bd].add(pending_boot['cat'])
        blob += 1
        if pending_boot['efi']:
            ep = (bd + '/' if bd else '') + 'efi.img'
            tree.append({'p': ep, 'k': 'f', 'blob': blob, 'len': 4096, 'efi': True})
            used[bd].add('efi.img')
            blob += 1
    sizes = (0, 0, 1, 5, 7, 8, 64, 100, 2047, 2048, 2049, 4096, 5000, 20000, 40000, 70000)
    for _ in range(n):
        parent = r.choice(dirs) if r.random() < 0.7 else dirs[-1]
        k = r.random()
        isdir = k < 0.25 and depth[parent] < maxdepth
        if not isdir and not o['rock'] and depth[parent] >= 7:
            continue            # the library counts a file as one more level: documented limit, the tool says so and goes on
        name = gen_name(r, o, used[parent], isdir)
        if name is None:
            continue
        p = (parent + '/' if parent else '') + name
        used[parent].add(name)
        if isdir:
            tree.append({'p': p, 'k': 'd'})
            dirs.append(p)
            depth[p] = depth[parent] + 1
            used[p] = set()
        elif k < 0.33:
            files = [e['p'] for e in tree if e['k'] != 'l']
            tk = r.random()
            if tk < 0.5 and files:
                tgt = os.path.relpath(r.choice(files), parent or '.')
            elif tk < 0.7:
                tgt = r.choice(('/etc/passwd', '/', '..', '.', '../..', 'nonexistent', './a/../b', 'dir/', '//double//slash'))
            elif tk < 0.85:
                tgt = '/'.join(r.choice(PLAIN + UNI[:3]) for _ in range(r.randint(1, 6)))
            else:
                tgt = '/'.join('c%03d' % i * r.choice((1, 10)) for i in range(r.randint(1, 12)))
            tree.append({'p': p, 'k': 'l', 'target': tgt})
        else:
            kk = r.random()
            if kk < 0.2 and blobs:
                b, ln = r.choice(blobs)                       # identical content
                tree.append({'p': p, 'k': 'f', 'blob': b, 'len': ln})
            elif kk < 0.32 and blobs:
                _, ln = r.choice(blobs)                       # same size, different content
                tree.append({'p': p, 'k': 'f', 'blob': blob, 'len': ln, 'samesize': True})
                blobs.append((blob, ln))
                blob += 1
            elif kk < 0.36 and [b for b in blobs if b[1] % 4 == 0 and 8 <= b[1] < 32768]:
                b, ln = r.choice([b for b in blobs if b[1] % 4 == 0 and 8 <= b[1] < 32768])
                tree.append({'p': p, 'k': 'f', 'collide': b, 'len': ln})
            else:
                ln = r.choice(sizes)
                tree.append({'p': p, 'k': 'f', 'blob': blob, 'len': ln})
                blobs.append((blob, ln))
                blob += 1
    # rare: many siblings sharing one mangled prefix
    if r.random() < 0.04:
        parent = r.choice([d for d in dirs if o['rock'] or depth[d] < 7])
        cnt = r.choice((12, 40, 120))
        for i in range(cnt):
            name = 'collision_%04d.txt' % i
            if name in used[parent]:
                continue
            used[parent].add(name)
            tree.append({'p': (parent + '/' if parent else '') + name, 'k': 'f', 'blob': blob, 'len': r.choice((0, 3, 64)), 'mass': True})
            blob += 1
    views = ['iso']
    if o['rock']:
        views.append('rockridge')
    if o['joliet']:
        views.append('joliet')
    if o['udf']:
        views.append('udf')
    extract = list(views) + ['auto']
    start = None
    sub = [d for d in dirs if d and depth[d] <= 2]
    if sub and r.random() < 0.2:
        start = {'view': r.choice(views), 'dir': r.choice(sub)}
    return {'seed': seed, 'opts': o, 'tree': tree, 'extract': extract, 'start': start, 'listdir_seed': r.getrandbits(32)}


# ---------------------------------------------------------------------------
# expected trees

def content_of(e, tree_by_blob=None):
    if 'collide' in e:
        return craft_collision(blob_bytes(e['collide'], e['len']))
    return blob_bytes(e['blob'], e['len'])


def ckey(b, mask_len=None):
    if len(b) == 0:
        return 'empty'
    if mask_len is not None and len(b) == mask_len:
        b = b[:8] + b'\x00' * 56 + b[64:]
    return '%d:%s' % (len(b), hashlib.blake2b(b, digest_size=8).hexdigest())


def match(pats, name):
    import fnmatch
    return any(fnmatch.fnmatch(name, p) for p in pats)


def source_entries(plan):
    """path -> ('d',) | ('f', bytes) | ('l', target); parents implied."""
    out = {}
    for e in plan['tree']:
        p = e['p']
        parts = p.split('/')
        for i in range(1, len(parts)):
            out.setdefault('/'.join(parts[:i]), ('d',))
        if e['k'] == 'd':
            out.setdefault(p, ('d',))
        elif p in out:
            continue
        elif e['k'] == 'l':
            out[p] = ('l', e['target'])
        else:
            out[p] = ('f', content_of(e))
    # an entry whose "parent" is a file or symlink cannot be materialised
    bad = {p for p, v in out.items() if v[0] != 'd'}
    return {p: v for p, v in out.items() if not any('/'.join(p.split('/')[:i]) in bad for i in range(1, len(p.split('/'))))}


def expected_view(plan, src, view):
    """What the extracted tree must be for one view.  Values: ('d',), ('f', key), ('l', target) or ('either',)."""
    o = plan['opts']
    mask = o['boot']['len'] if o['boot'] and o['boot']['bit'] else None
    out = {}
    symlinks_recorded = bool(o['rock'] or o['udf'])
    for p in sorted(src):
        v = src[p]
        parts = p.split('/')
        if any(match(o['exclude'], c) for c in parts):
            continue
        base = parts[-1]
        if not o['rock'] and len(parts) > 7:
            # without Rock Ridge the tool leaves out what lies deeper than ISO9660 allows, and says so
            out[p] = ('either',)
            continue
        if v[0] == 'f':
            if view in ('iso', 'rockridge') and match(o['hide'], base):
                continue
            if view == 'joliet' and match(o['hide_joliet'], base):
                continue
            if view == 'udf' and match(o.get('hide_udf') or [], base):
                continue
            out[p] = ('f', ckey(v[1], mask))
        elif v[0] == 'l':
            if not symlinks_recorded:
                continue
            if view == 'rockridge':
                out[p] = ('l', v[1])
            elif view == 'udf':
                # path components cannot say "doubled slash" or "trailing slash"
                t = re.sub('/+', '/', v[1])
                out[p] = ('l', t.rstrip('/') if t != '/' else t)
            elif view == 'joliet':
                out[p] = ('either',)
            else:
                out[p] = ('f', 'empty')
        else:
            out[p] = ('d',)
    return out


def fs_tree(root):
    out = {}
    for dp, dn, fn in os.walk(root):
        rel = os.path.relpath(dp, root)
        rel = '' if rel == '.' else rel
        for d in list(dn):
            full = os.path.join(dp, d)
            p = (rel + '/' if rel else '') + d
            if os.path.islink(full):
                out[p] = ('l', os.readlink(full))
                dn.remove(d)
            else:
                out[p] = ('d',)
        for f in fn:
            full = os.path.join(dp, f)
            p = (rel + '/' if rel else '') + f
            if os.path.islink(full):
                out[p] = ('l', os.readlink(full))
            else:
                with open(full, 'rb') as fp:
                    out[p] = ('f', fp.read())
    return out


def keyed(t, mask):
    return {p: (('f', ckey(v[1], mask)) if v[0] == 'f' else v) for p, v in t.items()}


def shape(t, strip_version=False):
    """Name-free canonical shape of a tree {path: value}."""
    kids = {}
    for p, v in t.items():
        parent = p.rsplit('/', 1)[0] if '/' in p else ''
        kids.setdefault(parent, []).append((p, v))

    def sh(p):
        out = []
        for cp, v in kids.get(p, []):
            if v[0] == 'd':
                out.append(('d', sh(cp)))
            else:
                out.append(v)
        return tuple(sorted(out, key=repr))
    return sh('')


def legal_iso_name(name, level, isdir):
    if isdir:
        if level == 4:
            return len(name.encode('utf-8')) <= 207
        ok = all(c in 'ABCDEFGHIJKLMNOPQRSTUVWXYZ0123456789_' for c in name)
        return ok and 1 <= len(name) <= (8 if level == 1 else 31)
    if level == 4:
        return 1 <= len(name.encode('utf-8')) <= 207
    if not name.endswith(';1'):
        return False
    body = name[:-2]
    if body.count('.') != 1:
        return False
    nm, ext = body.split('.')
    if not all(c in 'ABCDEFGHIJKLMNOPQRSTUVWXYZ0123456789_' for c in nm + ext):
        return False
    if len(nm) + len(ext) < 1:
        return False
    if level == 1:
        return len(nm) <= 8 and len(ext) <= 3
    return len(nm) + len(ext) <= 30


# ---------------------------------------------------------------------------
# execution

class _Ctx:
    def __init__(self):
        self.violations = []
        self.probes = Counter()
        self.status = 'ok'

    def violate(self, sig, detail):
        sig = [str(s) for s in sig]
        if not any(v['sig'] == sig for v in self.violations):
            self.violations.append({'sig': sig, 'detail': str(detail)[:1500]})
        self.status = 'violation'


def run_tool(mod, argv, scrub=None):
    old_argv, old_cwd = sys.argv, os.getcwd()
    buf = io.StringIO()
    sys.argv = argv
    try:
        with contextlib.redirect_stdout(buf), contextlib.redirect_stderr(buf):
            try:
                rc = mod.main()
                out = ('rc', rc)
            except SystemExit as e:
                out = ('exit', e.code)
            except Exception as e:   # noqa
                tb = traceback.extract_tb(e.__traceback__)
                where = '?'
                for fr in reversed(tb):
                    if 'tools/pycdlib-' in fr.filename:
                        where = '%s:%s' % (os.path.basename(fr.filename), fr.name)
                        break
                inner = tb[-1]
                msg = str(e)
                if scrub:
                    msg = msg.replace(scrub, '<root>')
                out = ('exc', type(e).__name__, where, '%s:%s' % (os.path.basename(inner.filename), inner.name), msg[:300], stem(msg))
    finally:
        sys.argv = old_argv
        cwd_moved = False
        try:
            cwd_moved = os.getcwd() != old_cwd
        except OSError:
            cwd_moved = True
        os.chdir(old_cwd)
    return out, buf.getvalue(), cwd_moved


def materialise(src, root):
    os.makedirs(root, exist_ok=True)
    for p in sorted(src, key=lambda x: (x.count('/'), x)):
        v = src[p]
        full = os.path.join(root, p)
        if v[0] == 'd':
            os.makedirs(full, exist_ok=True)
        elif v[0] == 'l':
            os.symlink(v[1], full)
        else:
            with open(full, 'wb') as fp:
                fp.write(v[1])


def gen_argv(plan, src_root, out_iso):
    o = plan['opts']
    a = ['pycdlib-genisoimage', '-quiet', '-iso-level', str(o['iso_level'])]
    if o['rock'] == 'r':
        a.append('-r')
    elif o['rock'] == 'R':
        a.append('-R')
    if o['rrip'] == '110':
        a.append('-rrip110')
    elif o['rrip'] == '112':
        a.append('-rrip112')
    if o['joliet']:
        a.append('-J')
    if o['udf']:
        a.append('-udf')
    if o['dups']:
        a.append('-scan-for-duplicates')
    for p in o['exclude']:
        a += [o.get('exclude_flag', '-m'), p]
    for p in o['hide']:
        a += ['-hide', p]
    for p in o['hide_joliet']:
        a += ['-hide-joliet', p]
    for p in o.get('hide_udf') or []:
        a += ['-hide-udf', p]
    for p in o['hidden']:
        a += ['-hidden', p]
    b = o['boot']
    if b:
        pre = b['dir'] + '/' if b['dir'] else ''
        a += ['-b', pre + b['name'], '-c', pre + b['cat'], '-no-emul-boot']
        if b['load_size']:
            a += ['-boot-load-size', str(b['load_size'])]
        if b['bit']:
            a.append('-boot-info-table')
        if b['efi']:
            a += ['-eltorito-alt-boot', '-e', pre + 'efi.img', '-no-emul-boot']
    a += ['-o', out_iso, src_root]
    return a


def decoder_views(data, plan, ctx):
    """Independent decode of the image: {'iso':…, 'rockridge':…, 'joliet':…, 'udf':…} trees keyed like fs_tree (bytes)."""
    img = dec_iso.decode(data)
    views = {}
    info = {'img': img, 'rr': False, 'udf': False, 'joliet': 'joliet' in img.trees, 'enhanced': 'enhanced' in img.trees, 'et': None, 'cat': None}
    et = dec_boot.ElTorito(data).decode([(v.sector, v.raw) for v in img.boots])
    info['et'] = et
    cat_lba = et.catalog_lba if et.present else None
    if cat_lba:
        info['cat'] = data[cat_lba * 2048:(cat_lba + 1) * 2048]
    for ns in ('iso', 'joliet'):
        t = img.trees.get(ns)
        if t is None:
            continue
        v = {}
        for path, rec in t.entries.items():
            p = path.lstrip('/')
            if rec.is_dir:
                v[p] = ('d',)
            else:
                b = decview.file_bytes(data, rec)
                v[p] = ('f', b if b is not None else b'<out of image>')
        views[ns] = v
    if 'iso' in img.trees:
        sus = dec_susp.SuspDecoder(img, data)
        sus.decode_tree(img.trees['iso'])
        info['rr'] = bool(sus.has_susp)
        if info['rr']:
            class _M:        # Resolver wants a model: give it none
                blobs = {}
            v, problems = _rr_tree(img, data, sus)
            views['rockridge'] = v
            info['rr_problems'] = problems
    u = dec_udf.decode(data)
    info['udf'] = bool(u.present)
    if u.present:
        v = {}
        for path, e in u.entries.items():
            p = path.lstrip('/')
            if not p:
                continue
            if e.kind == 'dir':
                v[p] = ('d',)
            elif e.kind == 'symlink':
                v[p] = ('l', e.target)
            else:
                b = u.entry_bytes(e)
                v[p] = ('f', b if b is not None else b'<out of image>')
        views['udf'] = v
    return views, info


def _rr_tree(img, data, sus):
    t = img.trees['iso']
    v = {}
    problems = []

    def walk(d, path, depth):
        if depth > 64:
            return
        for rec in (d.children or [])[2:]:
            i = sus.info.get(id(rec))
            if i is None:
                problems.append('record-without-susp ' + str(rec.path))
                continue
            if i.re:
                continue
            name = i.name if i.name is not None else rec.ident
            try:
                nm = name.decode('utf-8')
            except UnicodeDecodeError:
                nm = name.decode('latin-1')
            p = (path + '/' if path else '') + nm
            if i.cl is not None:
                target = t.dir_extents.get(i.cl)
                if target is None:
                    problems.append('cl-target-missing ' + p)
                    continue
                v[p] = ('d',)
                walk(target, p, depth + 1)
            elif rec.is_dir:
                v[p] = ('d',)
                walk(rec, p, depth + 1)
            elif i.is_symlink:
                try:
                    tg = i.target.decode('utf-8')
                except UnicodeDecodeError:
                    tg = i.target.decode('latin-1')
                v[p] = ('l', tg)
            else:
                b = decview.file_bytes(data, rec)
                v[p] = ('f', b if b is not None else b'<out of image>')
    walk(t.root, '', 0)
    # the relocation directory is not part of the logical tree
    return v, problems


def diff_trees(exp, got, cat_key):
    """-> list of (kind, path, detail)."""
    out = []
    for p, e in exp.items():
        g = got.get(p)
        if e[0] == 'either':
            continue
        if g is None:
            out.append(('missing-' + {'d': 'dir', 'f': 'file', 'l': 'symlink'}[e[0]], p, ''))
        elif g[0] != e[0]:
            out.append(('kind-%s-as-%s' % (e[0], g[0]), p, ''))
        elif e[0] == 'f' and g[1] != e[1]:
            out.append(('content', p, 'expected %s got %s' % (e[1], g[1])))
        elif e[0] == 'l' and g[1] != e[1]:
            out.append(('symlink-target', p, 'expected %r got %r' % (e[1], g[1])))
    for p, g in got.items():
        if p in exp:
            continue
        if g[0] == 'f' and cat_key is not None and g[1] == cat_key:
            continue
        out.append(('extra-' + {'d': 'dir', 'f': 'file', 'l': 'symlink'}[g[0]], p, ''))
    return out


def strip_relocation(t):
    """Rock Ridge trees extracted through pycdlib may show the (empty) relocation directory: drop it when empty."""
    for nm in ('rr_moved', 'RR_MOVED', '.rr_moved'):
        if t.get(nm) == ('d',) and not any(p.startswith(nm + '/') for p in t):
            t = dict(t)
            del t[nm]
    return t


def execute(plan):
    ctx = _Ctx()
    w = W.World(plan['seed'])
    h = hashlib.blake2b(digest_size=12)
    base = '/dev/shm' if os.path.isdir('/dev/shm') and os.access('/dev/shm', os.W_OK) else None
    root = tempfile.mkdtemp(prefix='c20-', dir=base)
    o = plan['opts']
    old_cwd = os.getcwd()
    nviews = 0
    try:
        with w:
            src = source_entries(plan)
            src_root = os.path.join(root, 'src')
            materialise(src, src_root)
            out_iso = os.path.join(root, 'out.iso')
            g = _load('pycdlib-genisoimage')
            x = _load('pycdlib-extract-files')
            g.os = OsShim(plan['listdir_seed'])
            os.chdir(root)
            res, log, moved = run_tool(g, gen_argv(plan, src_root, out_iso), root)
            os.chdir(root)
            _probe_tree(ctx, plan, src)
            h.update(repr(res[:4]).encode())
            if res[0] == 'exc':
                ctx.violate(['genisoimage', 'exception', res[1], res[2], res[3], res[5]], '%s: %s' % (res[1], res[4]))
            elif res != ('rc', None) and res != ('rc', 0):
                ctx.violate(['genisoimage', 'exit', res[1]], log[-400:].replace(root, '<root>'))
            if ctx.status == 'ok':
                with open(out_iso, 'rb') as fp:
                    data = fp.read()
                views, info = decoder_views(data, plan, ctx)
                mask = o['boot']['len'] if o['boot'] and o['boot']['bit'] else None
                cat_key = ckey(info['cat'], mask) if info['cat'] is not None else None
                # extensions exactly as requested
                for name, want, have in (('rock-ridge', bool(o['rock']), info['rr']), ('joliet', o['joliet'], info['joliet']), ('udf', o['udf'], info['udf']),
                                         ('enhanced-vd', o['iso_level'] == 4, info['enhanced']), ('eltorito', bool(o['boot']), bool(info['et'].present))):
                    if bool(want) != bool(have):
                        ctx.violate(['extensions', name, 'requested' if want else 'not-requested', 'present' if have else 'absent'], '')
                h.update(repr((info['rr'], info['joliet'], info['udf'], info['enhanced'])).encode())
                # the image as the decoders see it, per view
                dec_diffs = {}
                for view in ('iso', 'rockridge', 'joliet', 'udf'):
                    if view not in views:
                        continue
                    exp = expected_view(plan, src, view)
                    got = keyed(views[view], mask)
                    if view == 'iso':
                        dec_diffs[view] = iso_view_check(ctx, plan, exp, got, cat_key, 'build')
                    else:
                        if view == 'rockridge':
                            got = strip_relocation(got)
                        dec_diffs[view] = diff_trees(exp, got, cat_key)
                # extraction
                deep = any(p.count('/') >= 7 for p, v in src.items() if v[0] == 'd')
                for view in plan['extract']:
                    actual = view
                    if view == 'iso' and deep:
                        continue        # relocation placeholders are not files anyone can extract
                    if view == 'auto':
                        actual = 'udf' if o['udf'] else 'rockridge' if o['rock'] else 'joliet' if o['joliet'] else 'iso'
                        ctx.probes['auto_view'] += 1
                    dest = os.path.join(root, 'x-' + view)
                    os.makedirs(dest)
                    res, log, moved = run_tool(x, ['pycdlib-extract-files', '-path-type', view, '-extract-to', dest, out_iso], root)
                    h.update(repr((view, res[:4], moved)).encode())
                    nviews += 1
                    ctx.probes['views_extracted'] += 1
                    ctx.probes[{'rockridge': 'rr_view', 'joliet': 'joliet_view', 'udf': 'udf_view', 'iso': 'iso_only'}[actual]] += 1
                    if moved:
                        ctx.violate(['extract-files', actual, 'working-directory-changed'], 'the process working directory was left changed')
                    if res[0] == 'exc':
                        ctx.violate(['extract-files', actual, 'exception', res[1], res[2], res[3], res[5]], '%s: %s' % (res[1], res[4]))
                        continue
                    if res not in (('rc', 0), ('rc', None)):
                        ctx.violate(['extract-files', actual, 'exit', res[1]], log[-300:].replace(root, '<root>'))
                        continue
                    got = keyed(fs_tree(dest), mask)
                    exp = expected_view(plan, src, actual)
                    if actual == 'iso':
                        iso_view_check(ctx, plan, exp, got, cat_key, 'extract' if not dec_diffs.get('iso') else 'build')
                        continue
                    if actual == 'rockridge':
                        got = strip_relocation(got)
                    diffs = diff_trees(exp, got, cat_key)
                    dd = {(k, p) for k, p, _ in dec_diffs.get(actual, [])}
                    for k, p, det in diffs:
                        stage = 'build' if (k, p) in dd else 'extract'
                        ctx.violate(['roundtrip', actual, k, stage] + _why(plan, src, p, k), 'path %r %s' % (p, det))
                    h.update(repr(sorted((k, p) for k, p, _ in diffs)).encode())
                # a decoder-only difference that extraction does not show is still a wrong image
                for view, dl in dec_diffs.items():
                    if view == 'iso' or view not in plan['extract']:
                        continue
                    for k, p, det in dl:
                        ctx.violate(['image', view, k] + _why(plan, src, p, k), 'decoders: path %r %s' % (p, det))
                # -start-path
                st = plan.get('start')
                if st and st['view'] in views and st['view'] != 'iso' and ctx.status == 'ok':
                    exp_all = expected_view(plan, src, st['view'])
                    if exp_all.get(st['dir']) == ('d',):
                        ctx.probes['start_path'] += 1
                        dest = os.path.join(root, 'x-start')
                        os.makedirs(dest)
                        res, log, moved = run_tool(x, ['pycdlib-extract-files', '-path-type', st['view'], '-start-path', '/' + st['dir'], '-extract-to', dest, out_iso], root)
                        h.update(repr(('start', res[:4])).encode())
                        if res[0] == 'exc':
                            ctx.violate(['extract-files', st['view'], 'start-path', 'exception', res[1], res[2], res[3], res[5]], '%s: %s' % (res[1], res[4]))
                        elif res not in (('rc', 0), ('rc', None)):
                            ctx.violate(['extract-files', st['view'], 'start-path', 'exit', res[1]], log[-300:].replace(root, '<root>'))
                        else:
                            pre = st['dir'] + '/'
                            exp = {p[len(pre):]: v for p, v in exp_all.items() if p.startswith(pre)}
                            got = keyed(fs_tree(dest), mask)
                            for k, p, det in diff_trees(exp, got, cat_key):
                                ctx.violate(['roundtrip', st['view'], 'start-path', k], 'path %r under %r %s' % (p, st['dir'], det))
    finally:
        os.chdir(old_cwd)
        shutil.rmtree(root, ignore_errors=True)
    nlong = sum(1 for v in ('rock', 'joliet', 'udf') if o[v])
    fp = hashlib.blake2b(json.dumps([{k: v for k, v in o.items() if k != 'boot'}, bool(o['boot']), repr(shape({p: (v[0],) for p, v in src.items()}))],
                                    sort_keys=True).encode(), digest_size=8).hexdigest()
    return {'status': ctx.status, 'violations': ctx.violations, 'stats': {'views': nviews, 'entries': len(src)}, 'probes': dict(ctx.probes),
            'fingerprint': fp, 'digest': h.hexdigest() + ':' + ctx.status, 'nontrivial': len(src) >= 4 and nlong >= 1, 'sim_seconds': 0.0}


def _why(plan, src, p, kind):
    """Coarse cause tags for the signature (never the path itself)."""
    v = src.get(p)
    tags = []
    if v is None:
        return ['not-in-source']
    if v[0] == 'l':
        tags.append('rock=%s' % plan['opts']['rock'])
    if v[0] == 'f' and len(v[1]) == 0:
        tags.append('empty-file')
    for e in plan['tree']:
        if e['p'] == p:
            if 'collide' in e:
                tags.append('crafted-hash-collision')
            if e.get('boot') or e.get('efi'):
                tags.append('boot-file')
    if p.count('/') >= 7:
        tags.append('deep')
    return tags


def iso_view_check(ctx, plan, exp, got, cat_key, stage):
    """Shape equality (every source file once, in its directory) and legality of every identifier."""
    o = plan['opts']
    lvl = o['iso_level']
    got = {p: v for p, v in got.items() if not (v[0] == 'f' and cat_key is not None and v[1] == cat_key)}
    # a plain ISO9660 reader sees a symlink as an empty file; extract-files recreates it as a link when Rock Ridge says so
    got = {p: (('f', 'empty') if v[0] == 'l' else v) for p, v in got.items()}
    diffs = []
    relocated = any(p.count('/') >= 7 for p, v in exp.items() if v[0] == 'd') or any(p.count('/') >= 8 for p in exp)
    if any(v == ('either',) for v in exp.values()):
        # entries the tool may leave out: only what must be there is counted
        exp = {p: v for p, v in exp.items() if v != ('either',)}
        relocated = True
    if relocated:
        # a relocated directory leaves a placeholder record (a "file" whose extent is the directory) in the plain view
        a = Counter(v for v in exp.values() if v[0] == 'f')
        b = Counter(v for v in got.values() if v[0] == 'f')
        if a - b:
            diffs.append(('iso-file-multiset', '', 'missing %r extra %r' % (list((a - b).items())[:3], list((b - a).items())[:3])))
    else:
        if shape(exp) != shape(got):
            a = Counter(v for v in exp.values() if v[0] == 'f')
            b = Counter(v for v in got.values() if v[0] == 'f')
            na, nb = sum(1 for v in exp.values() if v[0] == 'd'), sum(1 for v in got.values() if v[0] == 'd')
            if a != b:
                kind = 'file-missing' if (a - b) and not (b - a) else 'file-extra' if (b - a) and not (a - b) else 'file-content'
            elif na != nb:
                kind = 'dir-count'
            else:
                kind = 'placement'
            diffs.append(('iso-shape-' + kind, '', 'expected %d files %d dirs, image has %d files %d dirs; missing %r extra %r' % (
                sum(a.values()), na, sum(b.values()), nb, list((a - b).items())[:3], list((b - a).items())[:3])))
    for p, v in got.items():
        name = p.rsplit('/', 1)[-1]
        if not legal_iso_name(name, lvl, v[0] == 'd'):
            if relocated and (name in ('RR_MOVED', '_RR_MOVE') or (v[0] == 'f' and legal_iso_name(name, lvl, True))):
                continue
            diffs.append(('iso-illegal-identifier', p, 'level %d, %s %r' % (lvl, 'dir' if v[0] == 'd' else 'file', name)))
            break
    for k, p, det in diffs:
        ctx.violate(['iso-view', k, stage, 'level=%d' % lvl], '%s %s' % (p, det))
    return diffs


def _probe_tree(ctx, plan, src):
    o = plan['opts']
    pr = ctx.probes
    kinds = Counter(v[0] for v in src.values())
    if kinds['l']:
        pr['symlink_in_tree'] += 1
    if any(v[0] == 'f' and len(v[1]) == 0 for v in src.values()):
        pr['empty_file'] += 1
    dirs = {p for p, v in src.items() if v[0] == 'd'}
    if any(not any(q.startswith(d + '/') for q in src) for d in dirs):
        pr['empty_dir'] += 1
    if any(p.count('/') >= 7 for p in src):
        pr['deep_tree'] += 1
    if any(ord(c) > 127 for p in src for c in p):
        pr['unicode_name'] += 1
    if o['boot']:
        pr['eltorito'] += 1
        if o['boot']['bit']:
            pr['boot_info_table'] += 1
    if o['iso_level'] == 4:
        pr['level4'] += 1
    if any(e.get('mass') for e in plan['tree']):
        pr['many_siblings'] += 1
    if any('collide' in e for e in plan['tree']) and o['dups']:
        pr['crafted_hash_collision'] += 1
    if any(e.get('samesize') for e in plan['tree']) and o['dups']:
        pr['same_size_different_content'] += 1
    if o['dups']:
        c = Counter(ckey(v[1]) for v in src.values() if v[0] == 'f')
        if any(n > 1 for n in c.values()):
            pr['dup_linked_candidates'] += 1
    if o['exclude'] and any(match(o['exclude'], c) for p in src for c in p.split('/')):
        pr['exclude_hit'] += 1
    if (o['hide'] or o['hide_joliet'] or o.get('hide_udf')) and any(match(o['hide'] + o['hide_joliet'] + (o.get('hide_udf') or []), p.rsplit('/', 1)[-1]) for p, v in src.items() if v[0] == 'f'):
        pr['hide_hit'] += 1
    # collisions after mangling: two siblings whose mangled names agree
    try:
        import pycdlib.utils as U
        seen = {}
        for p, v in src.items():
            parent, _, base = p.rpartition('/')
            if v[0] == 'd':
                m = U.mangle_dir_for_iso9660(base, o['iso_level'])
            else:
                m = '.'.join(U.mangle_file_for_iso9660(base, o['iso_level']))
            if (parent, m) in seen:
                pr['collision_after_mangling'] += 1
                break
            seen[(parent, m)] = 1
    except Exception:
        pass


def simplifications(plan):
    o = plan['opts']
    for k, v in (('dups', False), ('joliet', False), ('udf', False), ('boot', None), ('exclude', []), ('hide', []), ('hide_joliet', []), ('hide_udf', []), ('hidden', []),
                 ('rrip', None), ('iso_level', 3), ('iso_level', 1)):
        if o.get(k) != v:
            p = json.loads(json.dumps(plan))
            p['opts'][k] = v
            if k == 'boot':
                p['tree'] = [e for e in p['tree'] if not e.get('boot') and not e.get('efi')]
            p['extract'] = [x for x in p['extract'] if x in ('iso', 'auto') or (x == 'rockridge' and p['opts']['rock']) or (x == 'joliet' and p['opts']['joliet'])
                            or (x == 'udf' and p['opts']['udf'])]
            yield p
    if plan.get('start'):
        p = json.loads(json.dumps(plan))
        p['start'] = None
        yield p
    for i, e in enumerate(plan['tree']):
        if e['k'] == 'f' and e.get('len', 0) > 8 and 'collide' not in e:
            p = json.loads(json.dumps(plan))
            if any(t.get('collide') == e.get('blob') for t in plan['tree']):
                continue
            p['tree'][i]['len'] = 8 if e['len'] > 64 else 1
            yield p


def sample_of(plan):
    return {'opts': plan['opts'], 'tree': plan['tree'][:8], 'extract': plan['extract'], 'start': plan.get('start')}
