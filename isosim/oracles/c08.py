"""C08 - Rock Ridge fidelity for an independent SUSP/RRIP reader."""
from .. import hist as H
from .. import gen as G
from .. import observe as O
from .. import dec_iso, dec_susp, decview

PROP = 'C08'
LEVEL = 'exploration'
RULE = ('HIST histories on Rock Ridge configurations (1.09/1.10/1.12 x XA x level), name grammar 1..255 bytes hitting the '
        'lengths where NM/PX/SL spill into continuation areas, symlink targets of all shapes, add/remove histories that fill, '
        'free and refill continuation blocks, directory chains to depth 11 (relocation at depth 8: CL/PL/RE, placeholder, RR_MOVED coming and going); every written image is read by isosim/dec_susp.py (SP/CE/ER/ES/RR/PX/PN/SL/NM/CL/PL/RE/TF); '
        'non-trivial: >= 3 accepted edits and >= 1 write; distinct = distinct model shape fingerprints')
BUDGET = {'quick': 40, 'thorough': 900}
PROBES = ['images_decoded', 'ce_area_used', 'ce_blocks_ge_2', 'nm_split', 'sl_split', 'symlinks_decoded', 'relocation_seen']
ASSUMPTIONS = ['isosim/dec_susp.py implements SUSP 1.12 / RRIP 1.12 as summarised in DESIGN.md Appendix A']


def cfg_fn(r):
    cfg = G.swarm_config(r)
    cfg['rr'] = r.choice(('1.09', '1.10', '1.12'))
    if r.random() < 0.6:
        cfg['udf'] = False
    return G.clamp_config(cfg)


PROFILE = H.Profile('c08', nops=(3, 26), cfg_fn=cfg_fn,
                    weights={'add_symlink': 14, 'add_dir': 18, 'rm_file': 9, 'rm_dir': 6, 'rm_link': 6, 'add_eltorito': 1, 'dup_pvd': 0,
                             'add_isohybrid': 0, 'restart': 5})


def check_image(ctx, data, phase='write'):
    img = dec_iso.decode(data)
    if not img.pvds:
        ctx.violate(('no-pvd',), 'image has no PVD')
        return None
    n0 = len(img.anoms)
    sus = dec_susp.SuspDecoder(img, data)
    sus.decode_tree(img.trees['iso'])
    ctx.probes['images_decoded'] += 1
    for a in img.anoms[n0:]:
        ctx.violate((a.rule,), repr(a), fatal=False)
    if not sus.has_susp:
        ctx.violate(('susp.5.3/no-sp-in-root-dot',), 'Rock Ridge image without SP entry in the root "." record')
        return None
    if sus.all_ce:
        ctx.probes['ce_area_used'] += 1
        if len({b for b, o, l, w in sus.all_ce}) >= 3:
            ctx.probes['ce_blocks_ge_2'] += 1
    t = img.trees['iso']
    # ER / ES identify the right extension
    want_er = b'RRIP_1991A' if ctx.model.rr in ('1.09', '1.10') else b'IEEE_P1282'
    if sus.er_id != want_er:
        ctx.violate(('rrip.4.3/er-id-for-version', ctx.model.rr), 'ER id %r for version %s' % (sus.er_id, ctx.model.rr), fatal=False)
    px_want = 44 if ctx.model.rr == '1.12' else 36
    # per record checks
    for d in t.dirs:
        for i, rec in enumerate(d.children or []):
            info = sus.info.get(id(rec))
            if info is None:
                continue
            if info.has_px and info.px_len != px_want:
                ctx.violate(('rrip.4.1.1/px-length-for-version', ctx.model.rr), 'PX %d bytes @%d' % (info.px_len, rec.off), fatal=False)
            if not info.has_px:
                ctx.violate(('rrip.4.1.1/px-missing',), 'record @%d %r' % (rec.off, rec.ident), fatal=False)
            if i >= 2 and not info.has_nm and info.cl is None:
                ctx.violate(('rrip.4.1.4/nm-missing',), 'record @%d %r' % (rec.off, rec.ident), fatal=False)
            if info.has_px:
                ft = info.mode & 0o170000
                if rec.is_dir and ft != 0o040000:
                    ctx.violate(('rrip.4.1.1/px-type', 'dir'), 'mode %o @%d' % (info.mode, rec.off), fatal=False)
                if info.is_symlink and ft != 0o120000:
                    ctx.violate(('rrip.4.1.1/px-type', 'symlink'), 'mode %o @%d' % (info.mode, rec.off), fatal=False)
                if not rec.is_dir and not info.is_symlink and info.cl is None and ft != 0o100000 and i >= 2:
                    ctx.violate(('rrip.4.1.1/px-type', 'file'), 'mode %o @%d %r' % (info.mode, rec.off, rec.ident), fatal=False)
            if len([e for e in info.entries if e[0] == b'NM']) > 1:
                ctx.probes['nm_split'] += 1
            if len([e for e in info.entries if e[0] == b'SL']) > 1:
                ctx.probes['sl_split'] += 1
            if info.is_symlink:
                ctx.probes['symlinks_decoded'] += 1
            if info.cl is not None or info.re:
                ctx.probes['relocation_seen'] += 1
    # link counts: D's record in its parent, D's '.', the '..' of D's sub-directories agree, = 2 + #subdirs
    for d in t.dirs:
        ch = d.children or []
        if len(ch) < 2:
            continue
        subs = [c for c in ch[2:] if c.is_dir]
        counts = {}
        dot = sus.info.get(id(ch[0]))
        if dot is not None and dot.has_px:
            counts['dot'] = dot.nlink
        if d is not t.root:
            own = sus.info.get(id(d))
            if own is not None and own.has_px:
                counts['in-parent'] = own.nlink
        else:
            dd = sus.info.get(id(ch[1]))
            if dd is not None and dd.has_px:
                counts['root-dotdot'] = dd.nlink
        for s in subs:
            sch = s.children or []
            if len(sch) > 1:
                sdd = sus.info.get(id(sch[1]))
                if sdd is not None and sdd.has_px and sdd.pl is None:
                    counts['dotdot-of-%s' % s.ident.decode('latin-1')[:12]] = sdd.nlink
        vals = set(counts.values())
        if len(vals) > 1:
            kinds = sorted(set(k.split('-of-')[0] for k in counts))
            ctx.violate(('rrip.4.1.1/link-count-disagree', '+'.join(kinds)), 'dir %r: %r' % (d.path, counts), fatal=False)
        elif vals:
            n = vals.pop()
            nsub = len(subs)
            # logical or physical counting both accepted where relocation makes them differ
            logical = nsub
            for c in ch[2:]:
                ci = sus.info.get(id(c))
                if ci is not None and ci.cl is not None:
                    logical += 1
                if ci is not None and ci.re:
                    logical -= 1
            if n not in (2 + nsub, 2 + logical):
                ctx.violate(('rrip.4.1.1/link-count-value',), 'dir %r: count %d, %d sub-directories' % (d.path, n, nsub), fatal=False)
    for d in t.dirs:
        for rec in (d.children or [])[2:]:
            info = sus.info.get(id(rec))
            if info is not None and info.has_px and not rec.is_dir and info.cl is None and info.nlink < 1:
                ctx.violate(('rrip.4.1.1/file-link-count-lt-1',), '%r' % (rec.ident,), fatal=False)
    view, problems = decview.rr_view(img, data, ctx.model, sus)
    for rule, off, detail in problems:
        ctx.violate((rule,), '@%d %s' % (off, detail), fatal=False)
    exp = ctx.model.view().get('rr')
    if exp is not None:
        mm = O.compare_views({'rr': exp}, {'rr': view})
        if mm:
            ctx.violate(('rr-view',) + O.mismatch_sig(mm[0]), 'path=%r expected=%r decoded=%r (+%d more)' % (mm[0][2], mm[0][3], mm[0][4], len(mm) - 1))
    return img, sus


class C08(H.Oracle):
    prop = PROP

    def on_write(self, ctx, disk, wf):
        check_image(ctx, bytes(disk.data))


def generate(seed, tier='quick'):
    G.NameGen.rr_max = 1100        # C08 quantifies over name lengths 1..>1000 bytes
    try:
        return H.generate(seed, PROFILE)
    finally:
        G.NameGen.rr_max = 255


def execute(plan):
    return H.execute(plan, C08())


def sample_of(plan):
    return {'cfg': plan['cfg'], 'env': plan['env'], 'ops': plan['ops'][:12]}
