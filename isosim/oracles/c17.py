"""C17 - in-place modification touches only what it must and stays a valid image.

Exploration with a storage monitor: a seeded history masters an image to a
SimDisk, which is opened r+b; modify_file_in_place is then called (1-3 times,
valid and doomed variants) and the disk's bytes before/after plus the complete
write log of the backing file are compared with the allowed set computed from
the independent decoders."""
import hashlib
import io
import json
from collections import Counter

from .. import hist as H
from .. import gen as G
from .. import model as M
from .. import observe as O
from .. import world as W
from .. import alloc, dec_iso, dec_udf, decview
from ..disk import SimDisk, SimFile
from ..driver import Driver, Outcome, blob_data

PROP = 'C17'
LEVEL = 'exploration'
RULE = ('a seeded history (files at any depth, multi-sector directories through mass ops, hard links, Joliet/UDF/XA/Rock Ridge names) is mastered '
        'to a SimDisk opened r+b; 1-3 modify_file_in_place calls follow with new lengths from 0 to the old sector count x 2048 (valid) and, as doomed '
        'variants, lengths that change the sector count, a directory as target, and a read-only backing file; oracle: byte diff of the disk and every '
        'write of the call lie inside {the file\'s sectors, the directory records / UDF file entries of its names, the volume descriptor sectors (of '
        'which only space size and modification date may change)}, the disk still decodes cleanly, every name reads the new content, everything else '
        'is unchanged, a refused call writes nothing; non-trivial: >= 1 accepted modification on an image with >= 3 entries; distinct = (model shape, '
        'modification vector)')
BUDGET = {'quick': 40, 'thorough': 900}
PROBES = ['modifications_checked', 'doomed_checked', 'target_hard_linked', 'target_has_joliet_name', 'target_has_udf_name', 'target_in_multi_sector_dir',
          'target_deep', 'new_length_zero', 'new_length_exact_sectors', 'repeated_modification', 'rr_target', 'xa_image', 'object_reused_after_other_image', 'boot_file_with_table_refused', 'target_is_boot_file']
ASSUMPTIONS = ['volume descriptor sectors may be rewritten as a whole; only their space-size and modification-date bytes may differ',
               'the allowed set is computed by the independent decoders on the image before the call']
SHRINK_LIST_KEYS = ['ops', 'mods']
CHUNK = 10

PROFILE = H.Profile('c17', nops=(3, 16), final_restart=False,
                    weights={'add_fp': 36, 'add_dir': 14, 'add_link': 10, 'rm_file': 3, 'rm_link': 3, 'restart': 1, 'dup_pvd': 0.3, 'add_isohybrid': 0,
                             'add_eltorito': 3, 'add_boot_file': 2, 'add_symlink': 2, 'hide': 1, 'mass_dirs': 0.6, 'mass_files': 1.2},
                    sizes=(1, 7, 64, 100, 2047, 2048, 2049, 4096, 4097, 6143, 10000, 20480))


def generate(seed, tier='quick'):
    plan = H.generate(seed, PROFILE)
    w = W.World(seed)
    r = w.rng('c17')
    model = M.Model(plan['cfg'])
    for op in plan['ops']:
        model.apply(op)
    mods = []
    nb = 500000
    for k in range(r.randint(1, 3)):
        files = [(p, n) for p, n in model.iter_ns('iso') if n.kind == 'file' and isinstance(n.blob, int) and not n.noinode]
        dirs = [p for p, n in model.iter_ns('iso') if n.kind == 'dir']
        if not files:
            break
        p, n = r.choice(files)
        old = model.blobs[n.blob].length
        sectors = (old + 2047) // 2048
        kind = r.choice(('valid', 'valid', 'valid', 'grow-sector', 'shrink-sector', 'directory', 'readonly'))
        nb += 1
        if kind == 'valid' and n.blob in model.eltorito_blobs() and model.blobs[n.blob].bit:
            kind = 'boot-info-table'      # the table inside the file cannot be remade in place: refused
        if kind == 'valid':
            if sectors == 0:
                newlen = 0
            else:
                lo, hi = (sectors - 1) * 2048 + 1, sectors * 2048
                newlen = r.choice((lo, hi, hi - 1, r.randint(lo, hi), old))
            op = {'op': 'modify', 'iso': p, 'blob': nb, 'len': newlen, 'kind': 'valid'}
            model.apply(op)
        elif kind == 'grow-sector':
            op = {'op': 'modify', 'iso': p, 'blob': nb, 'len': sectors * 2048 + r.choice((1, 2048, 5000)), 'kind': kind, 'expect': 'refuse'}
        elif kind == 'shrink-sector':
            if sectors == 0:
                continue
            op = {'op': 'modify', 'iso': p, 'blob': nb, 'len': r.choice((0, (sectors - 1) * 2048)) if sectors > 1 else 0, 'kind': kind, 'expect': 'refuse'}
        elif kind == 'directory':
            if not dirs:
                continue
            op = {'op': 'modify', 'iso': r.choice(dirs), 'blob': nb, 'len': 2048, 'kind': kind, 'expect': 'refuse'}
        elif kind == 'boot-info-table':
            op = {'op': 'modify', 'iso': p, 'blob': nb, 'len': old, 'kind': kind, 'expect': 'refuse'}
        else:
            op = {'op': 'modify', 'iso': p, 'blob': nb, 'len': old, 'kind': kind, 'expect': 'refuse'}
        mods.append(op)
    plan['mods'] = mods
    plan['decoy'] = r.random() < 0.3
    return plan


class _Ctx:
    def __init__(self):
        self.violations = []
        self.stats = Counter()
        self.probes = Counter()
        self.status = 'ok'
        self.note = None

    def violate(self, sig, detail=''):
        sig = [str(s) for s in sig]
        if any(v['sig'] == sig for v in self.violations):
            return
        self.violations.append({'sig': sig, 'detail': str(detail)[:1500]})
        self.status = 'violation'


def allowed_ranges(before, model, iso_path):
    """Byte ranges modify_file_in_place may change / write, from the decoders on the image before the call."""
    am = alloc.build(before, model)
    img = am.img
    node = model.get('iso', iso_path)
    names = model.names_of_blob(node.blob) if isinstance(node.blob, int) else [('iso', iso_path)]
    change = []      # (start, end, what)
    write = []
    for vd in img.vds:
        if vd.type in (1, 2):
            base = vd.sector * 2048
            change.append((base + 80, base + 88, 'vd.space_size'))
            change.append((base + 830, base + 847, 'vd.modification_date'))
            write.append((base, base + 2048, 'vd'))
    data_start = None
    for ns, p in names:
        if ns in ('iso', 'joliet'):
            t = img.trees.get(ns)
            rec = t.entries.get(model.phys(ns, p)) if t else None
            if rec is not None:
                change.append((rec.off, rec.off + rec.length, 'dr.' + ns))
                write.append((rec.off, rec.off + rec.length, 'dr.' + ns))
                if rec.size:
                    data_start = rec.extent * 2048
                    span = ((rec.size + 2047) // 2048) * 2048
                    change.append((data_start, data_start + span, 'file-data'))
                    write.append((data_start, data_start + span, 'file-data'))
                if ns == 'iso' and 'enhanced' in img.trees:
                    pass
    if am.udf is not None and am.udf.present:
        for ns, p in names:
            if ns == 'udf':
                e = am.udf.entries.get(p)
                if e is not None:
                    change.append((e.fe_abs, e.fe_abs + 2048, 'udf.fe'))
                    write.append((e.fe_abs, e.fe_abs + 2048, 'udf.fe'))
    return change, write, am


def inside(off, ranges):
    for s, e, w in ranges:
        if s <= off < e:
            return w
    return None


def execute(plan):
    env = plan['env']
    w = W.World(plan['seed'], tz=env['tz'], clock0=env['clock0'], clock_mode=env['clock_mode'], cache=env['cache'], max_extent=env.get('max_extent'))
    ctx = _Ctx()
    h = hashlib.blake2b(digest_size=16)
    accepted = 0
    with w:
        d = Driver(w, plan['cfg'])
        d.blocksize = plan.get('blocksize', 32768)
        try:
            d.new()
            ok = True
            for op in plan['ops']:
                if op['op'] == 'restart':
                    try:
                        d.restart()
                        d.model.apply(op)
                    except Exception:
                        ok = False
                        break
                    continue
                if not M.valid(d.model, op):
                    continue
                if not d.apply(op).ok:
                    ok = False
                    break
            if ok:
                try:
                    disk, _ = d.write()
                except Exception:
                    ok = False
            if not ok:
                ctx.status = 'inconclusive'
                ctx.note = 'setup failed'
            else:
                accepted = run_mods(ctx, plan, d, disk, h, w)
        finally:
            d.close()
    vec = [(m_['kind'], m_['len']) for m_ in plan.get('mods') or []]
    mm = M.Model(plan['cfg'])
    for op in plan['ops']:
        if M.valid(mm, op):
            mm.apply(op)
    nent = sum(1 for ns in mm.roots for _ in mm.iter_ns(ns))
    return {'status': ctx.status, 'violations': ctx.violations, 'stats': dict(ctx.stats), 'probes': dict(ctx.probes),
            'fingerprint': hashlib.blake2b((repr(mm.shape()) + repr(vec)).encode(), digest_size=8).hexdigest(),
            'digest': h.hexdigest() + ':' + ctx.status, 'nontrivial': accepted >= 1 and nent >= 3, 'sim_seconds': w.clock.covered, 'note': ctx.note}


def run_mods(ctx, plan, d, disk, h, w):
    pm, pexc = d.pm, d.pexc
    model = d.model.clone()
    model.apply({'op': 'restart'})
    accepted = 0
    ro_disk = disk
    iso = pm.PyCdlib()
    if plan.get('decoy'):
        # the object patched another image before (same names, other contents and every name looked up): whatever it
        # remembers across close() would now send the writes to the places that image had
        dd = d.decoy_of(disk)
        if dd is not None:
            try:
                iso.open_fp(SimFile(dd, 'rb'))
                d.touch_all_names(iso)
                iso.close()
                ctx.probes['object_reused_after_other_image'] += 1
            except Exception:
                iso = pm.PyCdlib()
    fp = SimFile(disk, 'r+b')
    try:
        iso.open_fp(fp)
    except Exception as e:
        ctx.status = 'inconclusive'
        ctx.note = 'open failed %r' % (e,)
        return 0
    if model.cfg.get('xa'):
        ctx.probes['xa_image'] += 1
    nmods = 0
    for mod in plan.get('mods') or []:
        node = model.get('iso', mod['iso'])
        if node is None:
            continue
        doomed = mod.get('expect') == 'refuse'
        if not doomed and (node.kind != 'file' or not isinstance(node.blob, int)):
            continue
        has_table = node.kind == 'file' and isinstance(node.blob, int) and node.blob in model.eltorito_blobs() and model.blobs[node.blob].bit
        if not doomed:
            old = model.blobs[node.blob].length
            if (old + 2047) // 2048 != (mod['len'] + 2047) // 2048 or has_table:
                continue
        elif mod['kind'] == 'boot-info-table':
            if not has_table or (model.blobs[node.blob].length + 2047) // 2048 != (mod['len'] + 2047) // 2048:
                continue
            ctx.probes['boot_file_with_table_refused'] += 1
        elif mod['kind'] in ('grow-sector', 'shrink-sector', 'readonly'):
            if node.kind != 'file' or not isinstance(node.blob, int):
                continue
            old = model.blobs[node.blob].length
            if mod['kind'] != 'readonly' and (old + 2047) // 2048 == (mod['len'] + 2047) // 2048:
                continue
        elif mod['kind'] == 'directory' and node.kind != 'dir':
            continue
        before = bytes(disk.data)
        newdata = blob_data(M.Blob(mod['blob'], mod['len']))
        w.clock.advance(60.0)
        target_iso = iso
        if mod['kind'] == 'readonly':
            target_iso = pm.PyCdlib()
            try:
                target_iso.open_fp(SimFile(disk, 'rb'))
            except Exception:
                continue
        log0 = len(disk.log)
        kw = {}
        if model.rr and node.rr:
            kw['rr_name'] = node.rr
        try:
            target_iso.modify_file_in_place(io.BytesIO(newdata), mod['len'], mod['iso'], **kw)
            out = Outcome(True)
        except Exception as e:
            out = Outcome(False, e)
        after = bytes(disk.data)
        writes = [(off, ln) for seq, op, off, ln in disk.log[log0:] if op == 'write']
        h.update(repr((mod['kind'], out.ok, out.etype, hashlib.blake2b(after, digest_size=8).hexdigest())).encode())
        if doomed:
            ctx.probes['doomed_checked'] += 1
            if out.ok:
                ctx.violate(('doomed-accepted', mod['kind']), 'modify_file_in_place(%r, length %d) was accepted' % (mod['iso'], mod['len']))
                return accepted
            if out.etype != 'PyCdlibInvalidInput':
                ctx.violate(('doomed-wrong-exception', mod['kind'], out.etype), out.msg)
            if after != before:
                ctx.violate(('refused-call-changed-disk', mod['kind']), 'first difference at byte %d' % next(i for i in range(min(len(after), len(before))) if after[i] != before[i]))
                return accepted
            if writes:
                ctx.violate(('refused-call-wrote', mod['kind']), '%d writes, first at %d' % (len(writes), writes[0][0]))
            # a refused call must not disturb the object either: later modifications go on
            if mod['kind'] == 'readonly':
                continue
            continue
        if not out.ok:
            ctx.violate(('valid-modification-refused', out.etype, out.where), '%s length %d: %s' % (mod['iso'], mod['len'], out.msg))
            return accepted
        accepted += 1
        nmods += 1
        if nmods > 1:
            ctx.probes['repeated_modification'] += 1
        ctx.probes['modifications_checked'] += 1
        if node.blob in model.eltorito_blobs():
            ctx.probes['target_is_boot_file'] += 1
        names = model.names_of_blob(node.blob)
        if len(names) > 1:
            ctx.probes['target_hard_linked'] += 1
        if any(ns == 'joliet' for ns, p in names):
            ctx.probes['target_has_joliet_name'] += 1
        if any(ns == 'udf' for ns, p in names):
            ctx.probes['target_has_udf_name'] += 1
        if mod['iso'].count('/') >= 3:
            ctx.probes['target_deep'] += 1
        if mod['len'] == 0:
            ctx.probes['new_length_zero'] += 1
        if mod['len'] and mod['len'] % 2048 == 0:
            ctx.probes['new_length_exact_sectors'] += 1
        if model.rr:
            ctx.probes['rr_target'] += 1
        change, wr, am = allowed_ranges(before, model, mod['iso'])
        pdir = M.split(mod['iso'])[0]
        t = am.img.trees.get('iso')
        prec = t.entries.get(model.phys('iso', pdir)) if pdir != '/' else t.root
        if prec is not None and prec.size > 2048:
            ctx.probes['target_in_multi_sector_dir'] += 1
        if len(after) != len(before):
            ctx.violate(('disk-length-changed',), '%d -> %d' % (len(before), len(after)))
            return accepted
        # byte diff within the allowed set
        i = 0
        n = len(before)
        bad = None
        if before != after:
            for sec in range(0, n, 2048):
                if before[sec:sec + 2048] != after[sec:sec + 2048]:
                    for k in range(sec, min(sec + 2048, n)):
                        if before[k] != after[k] and inside(k, change) is None:
                            bad = k
                            break
                if bad is not None:
                    break
        if bad is not None:
            ctx.violate(('changed-outside-allowed-set', alloc.classify(am, bad)), 'byte %d (sector %d +%d) changed: %s -> %s' % (
                bad, bad // 2048, bad % 2048, before[bad:bad + 8].hex(), after[bad:bad + 8].hex()))
            return accepted
        for off, ln in writes:
            if ln and (inside(off, wr) is None or inside(off + ln - 1, wr) is None):
                ctx.violate(('write-outside-allowed-set', alloc.classify(am, off)), 'write of %d bytes at %d (sector %d +%d)' % (ln, off, off // 2048, off % 2048))
                break
        # the disk is still a valid image showing the new content under all names, nothing else changed
        model.apply(mod)
        img = dec_iso.decode(after)
        had_iso = {a.rule for a in am.img.anoms}
        hard = [a for a in img.anoms if a.rule not in had_iso]
        if hard:
            ctx.violate(('image-invalid-after-modification', hard[0].rule), repr(hard[0]))
            return accepted
        mmv = decview.compare_with_model(img, after, model, ('iso', 'joliet'))
        if mmv:
            ctx.violate(('decoded-view-after-modification',) + O.mismatch_sig(mmv[0]), 'path=%r expected=%r decoded=%r' % (mmv[0][2], mmv[0][3], mmv[0][4]))
            return accepted
        if model.has('udf'):
            u = dec_udf.decode(after)
            # judged against the image before the call: the modification must not introduce an anomaly
            had = {a.rule for a in dec_udf.decode(before).anoms}
            new_anoms = [a for a in u.anoms if a.rule not in had]
            if new_anoms:
                ctx.violate(('udf-invalid-after-modification', new_anoms[0].rule), repr(new_anoms[0]))
                return accepted
            mmv = O.compare_views({'udf': model.view()['udf']}, {'udf': decview.udf_view(u, model)})
            if mmv:
                ctx.violate(('decoded-view-after-modification',) + O.mismatch_sig(mmv[0]), 'path=%r expected=%r decoded=%r' % (mmv[0][2], mmv[0][3], mmv[0][4]))
                return accepted
        # ... and the live object reports the same
        try:
            view, anomalies = O.api_view(iso, model, pexc)
            mmv = O.compare_views(model.view(), view)
            if mmv:
                ctx.violate(('api-view-after-modification',) + O.mismatch_sig(mmv[0]), 'path=%r expected=%r observed=%r' % (mmv[0][2], mmv[0][3], mmv[0][4]))
                return accepted
        except Exception as e:
            o2 = Outcome(False, e)
            ctx.violate(('api-view-raised-after-modification', o2.etype, o2.where), o2.msg)
            return accepted
    return accepted


def sample_of(plan):
    return {'cfg': plan['cfg'], 'ops': plan['ops'][:8], 'mods': plan.get('mods')}
