"""C03 - written images are structurally valid ISO9660 for an independent reader."""
from .. import hist as H
from .. import observe as O
from .. import dec_iso
from .. import decview

PROP = 'C03'
LEVEL = 'exploration'
RULE = ('HIST histories in all configurations (biased to duplicate PVDs, level 4, XA, many directories); after every '
        'write_fp the image is decoded by isosim/dec_iso.py (ECMA-119 rules, each anomaly carries its clause) and the '
        'recovered tree+contents are compared with the model and the API view; non-trivial: >= 3 accepted edits and >= 1 write; '
        'distinct = distinct model shape fingerprints')
BUDGET = {'quick': 40, 'thorough': 900}
PROBES = ['decoded_images', 'api_vs_decoder_compared', 'dir_multi_sector', 'path_table_gt_2048', 'dup_pvd_decoded', 'xa_decoded', 'enhanced_decoded']
ASSUMPTIONS = ['isosim/dec_iso.py implements ECMA-119 as written down in DESIGN.md Appendix A (self-tested on hand-assembled sectors)']

PROFILE = H.Profile('c03', nops=(3, 24), weights={'dup_pvd': 2, 'add_dir': 22, 'mass_dirs': 2, 'ptr_cycle': 0.4}, final_restart=True)


class C03(H.Oracle):
    prop = PROP

    def on_write(self, ctx, disk, wf):
        data = bytes(disk.data)
        img = dec_iso.decode(data)
        ctx.probes['decoded_images'] += 1
        hard = False
        for a in img.anoms:
            ctx.violate((a.rule,), repr(a), fatal=False)
            if not a.rule.startswith('ecma119.9.3/order') and not a.rule.startswith('ecma119.6.7.1/duplicate-pvd-differs'):
                hard = True
        if hard or not img.pvds:
            return      # the tree could not be decoded reliably; nothing further to compare on this image
        if len(img.pvds) > 1:
            ctx.probes['dup_pvd_decoded'] += 1
        if img.pvds[0].xa:
            ctx.probes['xa_decoded'] += 1
        if 'enhanced' in img.trees:
            ctx.probes['enhanced_decoded'] += 1
        for d in img.trees['iso'].dirs:
            if d.size > 2048:
                ctx.probes['dir_multi_sector'] += 1
                break
        if img.pvds[0].pt_size > 2048:
            ctx.probes['path_table_gt_2048'] += 1
        mm = decview.compare_with_model(img, data, ctx.model, ('iso', 'joliet'))
        if mm:
            ns, kind, path, ev, ov = mm[0]
            ctx.violate(('decoded-view',) + O.mismatch_sig(mm[0]), 'path=%r expected=%r decoded=%r (+%d more)' % (path, ev, ov, len(mm) - 1))
            return
        self.last = (img, data)

    def on_end(self, ctx):
        # "every image written": also the one modify_file_in_place leaves on the disk (a file with an ISO9660 name, the
        # Joliet records of its content must follow)
        def check_image(ctx_, data):
            img = dec_iso.decode(data)
            for a in img.anoms:
                ctx_.violate((a.rule,), repr(a), fatal=False)
            if not img.pvds or any(not a.rule.startswith('ecma119.9.3/order') and not a.rule.startswith('ecma119.6.7.1/duplicate-pvd-differs') for a in img.anoms):
                return
            mm = decview.compare_with_model(img, data, ctx_.model, ('iso', 'joliet'))
            if mm:
                ctx_.violate(('decoded-view-after-in-place-modification',) + O.mismatch_sig(mm[0]), 'path=%r expected=%r decoded=%r' % (mm[0][2], mm[0][3], mm[0][4]))
        H.inplace_epilogue(ctx, 'iso', check_image, rate=0.4)

    def on_reopen(self, ctx):
        # "The tree and file contents recovered that way equal what the library API reports for the same image"
        if getattr(self, 'last', None) is None:
            return
        img, data = self.last
        self.last = None
        d = ctx.d
        try:
            view, anomalies = O.api_view(d.iso, d.model, d.pexc)
        except Exception as e:
            ctx.status = 'inconclusive'
            ctx.note = 'api view raised %r' % (e,)
            return
        ctx.probes['api_vs_decoder_compared'] += 1
        api = {ns: {p: (e if ns != 'iso' or e[2] is not None or e[0] == 'dir' else (e[0], e[1], ('empty',))) for p, e in view[ns].items()}
               for ns in ('iso', 'joliet') if ns in view}
        dec = {ns: decview.iso_view(img, data, d.model, ns) for ns in api}
        mm = O.compare_views(api, dec)
        if mm:
            ctx.violate(('api-vs-decoder',) + O.mismatch_sig(mm[0]), 'path=%r api=%r decoded=%r (+%d more)' % (mm[0][2], mm[0][3], mm[0][4], len(mm) - 1))


def generate(seed, tier='quick'):
    return H.generate(seed, PROFILE)


def execute(plan):
    return H.execute(plan, C03())


def sample_of(plan):
    return {'cfg': plan['cfg'], 'env': plan['env'], 'ops': plan['ops'][:12]}
