"""C05 - re-mastering is a fixpoint: open then write reproduces the image."""
import bisect

from .. import hist as H
from .. import gen as G
from .. import world as W
from .. import alloc, dec_iso
from ..disk import SimDisk, SimFile
from ..driver import Outcome

PROP = 'C05'
LEVEL = 'exploration'
RULE = ('every image b1 a HIST history masters is re-mastered twice, b2 = write(open(b1)), b3 = write(open(b2)), with environment faults '
        'between the generations (clock jump forward/backward, TZ change, a different entropy stream, another copy block size); b2 == b1 and '
        'b3 == b2 on every byte outside the volume-modification-date fields of the volume descriptors (offsets from the independent '
        'decoder); non-trivial: >= 3 accepted edits and >= 1 image re-mastered; distinct = model shape fingerprints')
BUDGET = {'quick': 40, 'thorough': 900}
PROBES = ['images_remastered', 'tz_changed', 'clock_stepped_back', 'udf_images', 'rr_images', 'eltorito_images', 'hybrid_images', 'joliet_images']
ASSUMPTIONS = ['only bytes 830-846 of PVD/SVD sectors (volume modification date and time) are exempt from the comparison']

PROFILE = H.Profile('c05', nops=(3, 22), weights={'add_boot_file': 3, 'add_eltorito': 5, 'add_isohybrid': 3, 'hybrid_setup': 1.5, 'restart': 3})


def mask_ranges(data):
    img = dec_iso.decode(data, want_trees=False)
    out = []
    for vd in img.vds:
        if vd.type in (1, 2):
            out.append((vd.sector * 2048 + 830, vd.sector * 2048 + 847))
    return out


def first_diff(a, b, masks):
    if len(a) != len(b):
        n = min(len(a), len(b))
    else:
        n = len(a)
    if a[:n] == b[:n] and len(a) == len(b):
        return None
    ma = bytearray(a[:n])
    mb = bytearray(b[:n])
    for s, e in masks:
        ma[s:e] = b'\x00' * (min(e, n) - s) if s < n else b''
        mb[s:e] = b'\x00' * (min(e, n) - s) if s < n else b''
    if ma == mb:
        return None if len(a) == len(b) else n
    # binary search for the first difference
    lo, hi = 0, n
    while hi - lo > 4096:
        mid = (lo + hi) // 2
        if ma[lo:mid] != mb[lo:mid]:
            hi = mid
        else:
            lo = mid
    for i in range(lo, hi):
        if ma[i] != mb[i]:
            return i
    return n


def classify(data, off, model):
    try:
        am = alloc.build(data, model)
    except Exception:
        return ('undecodable',)
    kind = alloc.classify(am, off)
    fields = sorted(am.img.fields) if am.img else []
    name = None
    i = bisect.bisect_right(fields, (off, 1 << 60, '')) - 1
    while i >= 0 and i > bisect.bisect_right(fields, (off, 1 << 60, '')) - 40:
        fo, fl, fm = fields[i]
        if fo <= off < fo + fl:
            name = fm
            break
        i -= 1
    if kind == 'vd':
        name = 'vd.' + dec_iso.pvd_field_at(off % 2048)
    if kind == 'sysarea':
        name = sysarea_field(off)
    if am.udf is not None and am.udf.present:
        for fo, fl, fm in am.udf.fields:
            if fo <= off < fo + fl:
                name = fm
                break
        if name is None:
            for fo, raw, fm in am.udf.timestamps:
                if fo <= off < fo + 12:
                    name = 'timestamp.' + fm
                    break
    return (kind, name or 'other')


def sysarea_field(off):
    if off < 432:
        return 'mbr.code'
    if off < 436:
        return 'mbr.boot-file-address'
    if off < 440:
        return 'mbr.boot-file-address-high'
    if off < 444:
        return 'mbr.disk-id'
    if off < 446:
        return 'mbr.pad'
    if off < 510:
        k = (off - 446) // 16 + 1
        o = (off - 446) % 16
        f = 'status' if o == 0 else 'start-chs' if o < 4 else 'type' if o == 4 else 'end-chs' if o < 8 else 'lba' if o < 12 else 'count'
        return 'mbr.partition.%s' % f
    if off < 512:
        return 'mbr.signature'
    if off < 1024:
        return 'gpt.primary-header'
    return 'gpt-or-apm.area'


class C05(H.Oracle):
    prop = PROP

    def remaster(self, ctx, data, step):
        d = ctx.d
        w = ctx.world
        r = w.rng('c05env.%d.%d' % (ctx.writes, step))
        # environment faults between the generations
        jump = r.choice((0.0, 1.0, 3600.0, 86400.0 * 400, -3600.0, -86400.0 * 30, 1800.0))
        if jump < 0:
            ctx.probes['clock_stepped_back'] += 1
        w.clock.advance(jump)
        old_tz = w.tz
        if r.random() < 0.6:
            w.set_tz(r.choice(W.TZ_CATALOGUE))
            ctx.probes['tz_changed'] += 1
        w.new_generation()
        try:
            disk_in = SimDisk('c05in', data, w.next_seq)
            iso = d.pm.PyCdlib(always_consistent=bool(r.getrandbits(1)))
            try:
                iso.open_fp(SimFile(disk_in, 'rb'))
            except Exception as e:
                return None, ('open', Outcome(False, e))
            out = SimDisk('c05out', b'', w.next_seq)
            try:
                iso.write_fp(SimFile(out, 'wb'), r.choice((2048, 4096, 32768, 65536, 1000)))
            except Exception as e:
                return None, ('write', Outcome(False, e))
            return bytes(out.data), None
        finally:
            w.set_tz(old_tz)

    def on_write(self, ctx, disk, wf):
        b1 = bytes(disk.data)
        m = ctx.model
        for flag, probe in ((m.has('udf'), 'udf_images'), (bool(m.rr), 'rr_images'), (bool(m.eltorito), 'eltorito_images'),
                            (bool(m.hybrid), 'hybrid_images'), (m.has('joliet'), 'joliet_images')):
            if flag:
                ctx.probes[probe] += 1
        prev = b1
        for step in (2, 3):
            nxt, err = self.remaster(ctx, prev, step)
            if err is not None:
                # "the written image can always be opened" is C01's; here the run just cannot be judged
                ctx.stats['inconclusive:remaster-%s:%s' % (err[0], err[1].etype)] += 1
                return
            ctx.probes['images_remastered'] += 1
            masks = mask_ranges(prev)
            off = first_diff(prev, nxt, masks)
            if off is not None:
                if len(prev) != len(nxt) and off >= min(len(prev), len(nxt)):
                    sig = ('length', 'b%d-vs-b%d' % (step, step - 1), 'longer' if len(nxt) > len(prev) else 'shorter', 'hybrid' if m.hybrid else 'plain')
                    detail = 'b%d has %d bytes, b%d has %d' % (step - 1, len(prev), step, len(nxt))
                else:
                    sig = ('diff', 'b%d-vs-b%d' % (step, step - 1)) + classify(prev, off, m)
                    detail = 'first difference at byte %d (sector %d +%d): %s -> %s' % (off, off // 2048, off % 2048, prev[off:off + 8].hex(), nxt[off:off + 8].hex())
                ctx.violate(sig, detail, fatal=False)
                return
            prev = nxt


def generate(seed, tier='quick'):
    return H.generate(seed, PROFILE)


def execute(plan):
    r = H.execute(plan, C05())
    r['nontrivial'] = r['nontrivial'] and bool(r['probes'].get('images_remastered'))
    return r


def sample_of(plan):
    return {'cfg': plan['cfg'], 'env': plan['env'], 'ops': plan['ops'][:12]}
