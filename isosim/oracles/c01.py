"""C01 - mastering fidelity: what was put in is what a reopened image shows."""
from .. import hist as H
from .. import observe as O

PROP = 'C01'
LEVEL = 'exploration'
RULE = ('HIST: seeded, model-directed edit histories (add/remove/link/symlink/hide/boot) from a fresh image in a '
        'swarm-drawn configuration, mastered to a SimDisk and reopened; a run is non-trivial if it has >= 3 accepted '
        'edits and >= 1 write+reopen; distinct = distinct (configuration, per-namespace shape, blob/boot counters) fingerprints')
BUDGET = {'quick': 40, 'thorough': 900}
PROBES = ['live_view_checked', 'reopen_view_checked']
ASSUMPTIONS = ['the reference model (isosim/model.py) states what the documented API implies',
               'attributable content PRF(blob) stands for arbitrary file contents']

PROFILE = H.Profile('c01', nops=(3, 22), final_restart=True)


class C01(H.Oracle):
    prop = PROP
    live_every = 1
    judge_write_open = True

    def check_view(self, ctx, phase):
        d = ctx.d
        try:
            view, anomalies = O.api_view(d.iso, d.model, d.pexc)
        except Exception as e:  # the library could not report its own content
            from ..driver import Outcome
            out = Outcome(False, e)
            ctx.violate((phase, 'observe-exception', out.etype, out.where), out.msg)
            return
        for kw, mm in anomalies:
            ctx.violate((phase, 'read-route-mismatch', sorted(kw)[0]), '%s %s' % (kw, mm))
            return
        mm = O.compare_views(d.model.view(), view)
        if mm:
            ns, kind, path, ev, ov = mm[0]
            ctx.violate((phase,) + O.mismatch_sig(mm[0]), 'path=%r expected=%r observed=%r (+%d more)' % (path, ev, ov, len(mm) - 1))

    def on_edit(self, ctx, op, out):
        if ctx.accepted_edits % self.live_every == 0:
            ctx.probes['live_view_checked'] += 1
            self.check_view(ctx, 'live')

    def on_reopen(self, ctx):
        ctx.probes['reopen_view_checked'] += 1
        self.check_view(ctx, 'restart')


def generate(seed, tier='quick'):
    return H.generate(seed, PROFILE)


def execute(plan):
    return H.execute(plan, C01())


def sample_of(plan):
    return {'cfg': plan['cfg'], 'env': plan['env'], 'ops': plan['ops'][:12]}
