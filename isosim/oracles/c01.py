"""C01 - mastering fidelity: what was put in is what a reopened image shows."""
from .. import hist as H
from .. import observe as O

PROP = 'C01'
LEVEL = 'exploration'
RULE = ('HIST: seeded, model-directed edit histories (add/remove/link/symlink/hide/boot) from a fresh image in a '
        'swarm-drawn configuration (directory chains to depth 11, i.e. Rock Ridge relocation; in 12% of level-3/4 runs files split into '
        'several extents at 2-20 KiB through the guarded threshold hook; restarts that reuse the PyCdlib object), mastered to a SimDisk and '
        'reopened; after every edit and reopen the API view of every namespace (both read routes) is compared with the reference model, and '
        'names removed by the edit must no longer resolve; a run is non-trivial if it has >= 3 accepted '
        'edits and >= 1 write+reopen; distinct = distinct (configuration, per-namespace shape, blob/boot counters) fingerprints')
BUDGET = {'quick': 40, 'thorough': 900}
PROBES = ['live_view_checked', 'reopen_view_checked', 'removed_name_lookups']
ASSUMPTIONS = ['the reference model (isosim/model.py) states what the documented API implies',
               'attributable content PRF(blob) stands for arbitrary file contents']

PROFILE = H.Profile('c01', nops=(3, 22), final_restart=True)
PROFILE.multi_extent_rate = 0.12       # >4 GiB multi-extent files, through the guarded threshold hook (level 3/4 runs only)


class C01(H.Oracle):
    prop = PROP
    live_every = 1
    judge_write_open = True

    def check_view(self, ctx, phase):
        d = ctx.d
        try:
            view, anomalies = O.api_view(d.iso, d.model, d.pexc)
        except Exception as e:  # the library could not report its own content
            from ..driver import Outcome
            out = Outcome(False, e)
            ctx.violate((phase, 'observe-exception', out.etype, out.where), out.msg)
            return
        for kw, mm in anomalies:
            # the two read routes disagree; the view below is built from get_file_from_iso_fp, so it is still judged
            ctx.violate((phase, 'read-route-mismatch', sorted(kw)[0]), '%s %s' % (kw, mm), fatal=False)
        mm = O.compare_views(d.model.view(), view)
        if mm:
            ns, kind, path, ev, ov = mm[0]
            ctx.violate((phase,) + O.mismatch_sig(mm[0]), 'path=%r expected=%r observed=%r (+%d more)' % (path, ev, ov, len(mm) - 1))

    def before_edit(self, ctx, op):
        # remember how the names that are about to go are addressed (Rock Ridge paths need the tree as it is now)
        self._gone = []
        m = ctx.model
        k = op['op']
        targets = []
        if k in ('rm_link', 'rm_file'):
            n = m.get(op['ns'], op['path'])
            if k == 'rm_file' and n is not None and isinstance(n.blob, int) and not n.noinode:
                targets = list(m.names_of_blob(n.blob))
            else:
                targets = [(op['ns'], op['path'])]
        elif k == 'rm_dir':
            targets = [(ns, op[ns]) for ns in ('iso', 'joliet', 'udf') if op.get(ns)]
        for ns, p in targets:
            self._gone.append(({'iso': 'iso_path', 'joliet': 'joliet_path', 'udf': 'udf_path'}[ns], p))
            if ns == 'iso' and m.rr:
                rp = _rr_path(m, p)
                if rp:
                    self._gone.append(('rr_path', rp))

    def check_gone(self, ctx):
        """Nothing else appears: a name that was just removed cannot be looked up any more."""
        for kw, p in getattr(self, '_gone', []):
            if kw == 'rr_path':
                if ctx.model.get_rr(p) is not None:
                    continue
            elif ctx.model.get({'iso_path': 'iso', 'joliet_path': 'joliet', 'udf_path': 'udf'}[kw], p) is not None:
                continue
            ctx.probes['removed_name_lookups'] += 1
            try:
                ctx.d.iso.get_record(**{kw: p})
            except ctx.d.pexc.PyCdlibInvalidInput:
                continue
            except Exception as e:   # noqa
                ctx.violate(('live', 'removed-name-lookup', kw, 'raised', type(e).__name__), '%s: %r' % (p, e), fatal=False)
                continue
            ctx.violate(('live', 'removed-name-still-resolves', kw), 'get_record(%s=%r) still returns a record after the entry was removed' % (kw, p), fatal=False)
        self._gone = []

    def on_edit(self, ctx, op, out):
        self.check_gone(ctx)
        if ctx.accepted_edits % self.live_every == 0:
            ctx.probes['live_view_checked'] += 1
            self.check_view(ctx, 'live')

    def on_reopen(self, ctx):
        ctx.probes['reopen_view_checked'] += 1
        self.check_view(ctx, 'restart')


def _rr_path(m, iso_path):
    node = m.roots['iso']
    out = ''
    for c in iso_path.split('/')[1:]:
        node = node.children.get(c) if node is not None and node.kind == 'dir' else None
        if node is None or node.rr is None:
            return None
        out += '/' + node.rr
    return out


def generate(seed, tier='quick'):
    return H.generate(seed, PROFILE)


def execute(plan):
    return H.execute(plan, C01())


def sample_of(plan):
    return {'cfg': plan['cfg'], 'env': plan['env'], 'ops': plan['ops'][:12]}
