"""C10 - UDF bridge fidelity for an independent ECMA-167 reader."""
from .. import hist as H
from .. import gen as G
from .. import observe as O
from .. import dec_udf, decview

PROP = 'C10'
LEVEL = 'exploration'
RULE = ('HIST histories on UDF configurations (alone and with Joliet/Rock Ridge/XA), Latin-1 and UCS-2 names, symlinks, '
        'cross-namespace links, removals, restart-then-edit; every written image is read by isosim/dec_udf.py starting only '
        'from the volume recognition sequence and the anchors; non-trivial: >= 3 accepted edits and >= 1 write; distinct = '
        'distinct model shape fingerprints')
BUDGET = {'quick': 40, 'thorough': 900}
PROBES = ['images_decoded', 'fid_area_gt_1_sector', 'ucs2_name', 'latin1_name', 'symlink_decoded', 'after_restart_edit', 'modified_in_place_then_decoded']
ASSUMPTIONS = ['isosim/dec_udf.py implements the ECMA-167/UDF 2.60 subset summarised in DESIGN.md Appendix A; own CRC-CCITT']


def cfg_fn(r):
    cfg = G.swarm_config(r)
    cfg['udf'] = True
    return G.clamp_config(cfg)


PROFILE = H.Profile('c10', nops=(3, 26), cfg_fn=cfg_fn,
                    weights={'add_symlink': 8, 'add_dir': 16, 'rm_file': 9, 'rm_dir': 6, 'rm_link': 7, 'add_link': 10, 'dup_pvd': 0,
                             'add_isohybrid': 0, 'restart': 6, 'mass_files': 2})


def check_image(ctx, data):
    u = dec_udf.decode(data)
    ctx.probes['images_decoded'] += 1
    if not u.present:
        ctx.violate(('ecma167.2/no-recognition-sequence',), 'UDF image without BEA01/NSR/TEA01')
        return None
    for a in u.anoms:
        ctx.violate((a.rule,), repr(a), fatal=False)
    if u.root is None:
        return None
    for p, e in u.entries.items():
        if e.kind == 'dir' and e.info_len > 2048:
            ctx.probes['fid_area_gt_1_sector'] += 1
        if e.kind == 'symlink':
            ctx.probes['symlink_decoded'] += 1
    view = decview.udf_view(u, ctx.model)
    exp = ctx.model.view().get('udf')
    mm = O.compare_views({'udf': exp}, {'udf': view})
    if mm:
        ctx.violate(('udf-view',) + O.mismatch_sig(mm[0]), 'path=%r expected=%r decoded=%r (+%d more)' % (mm[0][2], mm[0][3], mm[0][4], len(mm) - 1))
    # the partition covers exactly what is addressed through it and lies inside the volume
    if u.part_start is not None:
        hi = 0
        for kind, start, ln, owner in u.objects:
            if kind in ('udf.fe', 'udf.fids', 'udf.data', 'udf.fsd', 'udf.fsd-td') and ln:
                hi = max(hi, start + ln)
        used = (hi - u.part_start * 2048 + 2047) // 2048
        if used > u.part_len:
            ctx.violate(('ecma167.3/10.5.9/partition-shorter-than-content',), 'partition length %d, content needs %d' % (u.part_len, used), fatal=False)
    return u


class C10(H.Oracle):
    prop = PROP

    def on_write(self, ctx, disk, wf):
        if ctx.model.generation > 0:
            ctx.probes['after_restart_edit'] += 1
        check_image(ctx, bytes(disk.data))

    def on_end(self, ctx):
        # one file with a UDF name is modified in place on the final image; its File Entry (information length,
        # allocation descriptors, tag) must follow
        H.inplace_epilogue(ctx, 'udf', check_image)


def generate(seed, tier='quick'):
    return H.generate(seed, PROFILE)


def execute(plan):
    return H.execute(plan, C10())


def sample_of(plan):
    return {'cfg': plan['cfg'], 'env': plan['env'], 'ops': plan['ops'][:12]}
