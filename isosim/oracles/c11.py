"""C11 - El Torito boot structures point at the right bytes."""
import struct

from .. import hist as H
from .. import gen as G
from .. import model as M
from .. import observe as O
from .. import content, dec_iso, dec_udf, dec_boot
from ..driver import blob_data

PROP = 'C11'
LEVEL = 'exploration'
RULE = ('HIST histories with boot files of varied size/content (isolinux-signed, hdemul MBRs, exact floppy sizes), media types, '
        'platform ids, efi sections, explicit load sizes, 1..32 entries, boot-info tables, hidden boot files, catalog names in each '
        'namespace (also unlinked again), edits before/after, rm_eltorito, restarts; the catalog read through one of its names before each '
        'write must equal the mastered catalog; every written image is read by isosim/dec_boot.py; non-trivial: '
        '>= 3 accepted edits, >= 1 write and an El Torito catalog decoded at least once; distinct = distinct model shape fingerprints')
BUDGET = {'quick': 40, 'thorough': 900}
PROBES = ['catalog_read_before_write', 'catalog_decoded', 'sections_ge_2', 'hdemul', 'floppy', 'boot_info_table_checked', 'hidden_boot_file', 'rm_eltorito_checked',
          'efi_section', 'catalog_name_joliet', 'catalog_name_udf']
ASSUMPTIONS = ['isosim/dec_boot.py implements El Torito 1.0 as summarised in DESIGN.md Appendix A']

PROFILE = H.Profile('c11', nops=(4, 24),
                    weights={'add_boot_file': 14, 'add_eltorito': 22, 'rm_eltorito': 4, 'add_fp': 12, 'rm_link': 8, 'rm_file': 4, 'add_link': 5,
                             'add_dir': 6, 'dup_pvd': 0, 'add_isohybrid': 0, 'add_symlink': 1, 'restart': 6, 'mass_eltorito': 0.6})

MEDIA = {1228800: 1, 1474560: 2, 2949120: 3}


def check_image(ctx, data):
    m = ctx.model
    img = dec_iso.decode(data)
    if not img.pvds:
        return
    et = dec_boot.ElTorito(data).decode([(v.sector, v.raw) for v in img.boots])
    if m.eltorito is None:
        ctx.probes['rm_eltorito_checked'] += 1 if ctx.stats.get('accepted:rm_eltorito') else 0
        if et.present:
            ctx.violate(('eltorito/residue-boot-record',), 'El Torito boot record present although the model has none')
        # no catalog names may remain, and no boot-info table patch on any named file: the view comparison of C01 covers names;
        # here: every live blob's stored bytes are PRF except the baked window
        return
    if not et.present:
        ctx.violate(('eltorito/boot-record-missing',), 'model has El Torito, image has no boot record')
        return
    ctx.probes['catalog_decoded'] += 1
    for a in et.anoms:
        ctx.violate((a.rule,), repr(a), fatal=False)
    if et.initial is None:
        return
    ents = m.eltorito['entries']
    if et.platform != (m.eltorito.get('platform') or 0):
        ctx.violate(('eltorito.2.1/validation-platform',), 'got %#x want %#x' % (et.platform, m.eltorito.get('platform') or 0), fatal=False)
    if len(et.entries) != len(ents):
        ctx.violate(('eltorito/entry-count',), 'catalog has %d entries, model %d' % (len(et.entries), len(ents)))
        return
    if len(ents) >= 2:
        ctx.probes['sections_ge_2'] += 1
    # section headers
    for i, (hdr, es) in enumerate(et.sections):
        want_ind = 0x91 if i == len(et.sections) - 1 else 0x90
        if hdr['indicator'] != want_ind:
            ctx.violate(('eltorito.2.3/section-header-indicator',), 'section %d: %#x want %#x' % (i, hdr['indicator'], want_ind), fatal=False)
        if hdr['count'] != len(es):
            ctx.violate(('eltorito.2.3/section-entry-count',), 'section %d' % i, fatal=False)
    flat_hdr = [None] + [hdr for hdr, es in et.sections for _ in es]
    for i, (e, me) in enumerate(zip(et.entries, ents)):
        b = m.blobs.get(me['blob'])
        if b is None:
            continue
        tag = 'initial' if i == 0 else 'section'
        want_ind = 0x88 if me.get('bootable') else 0
        if e['indicator'] != want_ind:
            ctx.violate(('eltorito.2.2/boot-indicator-value', tag), 'entry %d: %#x want %#x' % (i, e['indicator'], want_ind), fatal=False)
        media = me.get('media') or 'noemul'
        if media == 'noemul':
            want_media = 0
            want_count = me['load_size'] if me.get('load_size') is not None else ((b.length + 2047) // 2048) * 4
            want_sys = 0
        elif media == 'floppy':
            want_media = MEDIA[b.length]
            want_count = 1
            want_sys = 0
            ctx.probes['floppy'] += 1
        else:
            want_media = 4
            want_count = 1
            want_sys = next((bytes.fromhex(h)[[k for k in range(4) if bytes.fromhex(h)[16 * k + 4]][0] * 16 + 4] for off, h in b.overlays if off == 446), 0)
            ctx.probes['hdemul'] += 1
        if e['media'] != want_media:
            ctx.violate(('eltorito.2.2/media-type-value', media), 'entry %d: %d want %d' % (i, e['media'], want_media), fatal=False)
        if e['sector_count'] != (want_count & 0xffff):
            ctx.violate(('eltorito.2.2/sector-count', media, tag), 'entry %d: %d want %d' % (i, e['sector_count'], want_count), fatal=False)
        if e['load_seg'] != (me.get('load_seg') or 0):
            ctx.violate(('eltorito.2.2/load-segment', tag), 'entry %d: %#x want %#x' % (i, e['load_seg'], me.get('load_seg') or 0), fatal=False)
        if e['system_type'] != want_sys:
            ctx.violate(('eltorito.2.2/system-type', media), 'entry %d: %#x want %#x' % (i, e['system_type'], want_sys), fatal=False)
        if i > 0:
            hdr = flat_hdr[i]
            want_plat = 0xef if me.get('efi') else (m.eltorito.get('platform') or 0)
            if me.get('efi'):
                ctx.probes['efi_section'] += 1
            if hdr is not None and hdr['platform'] != want_plat:
                ctx.violate(('eltorito.2.3/section-platform',), 'entry %d: %#x want %#x' % (i, hdr['platform'], want_plat), fatal=False)
        # the load RBA is the sector where the chosen boot file's bytes actually start
        start = e['rba'] * 2048
        stored = data[start:start + b.length]
        want = blob_data(b)
        if len(stored) != b.length or stored[:8] != want[:8] or stored[64:] != want[64:]:
            k = e['sector_count'] * 512
            if not m.names_of_blob(b.id) and m.generation >= 1 and k < b.length and stored[:8] == want[:8] and stored[64:k] == want[64:k] \
                    and not any(stored[k:((k + 2047) // 2048) * 2048]):
                # a boot file without any name is known to the image only by its emulated sector count
                ctx.violate(('eltorito/hidden-boot-file-truncated-to-sector-count-after-restart', media),
                            'entry %d: %d of %d bytes survive' % (i, k, b.length), fatal=False)
                continue
            ctx.violate(('eltorito.2.2/load-rba-not-boot-file', tag), 'entry %d rba %d: first bytes %s want %s' % (i, e['rba'], stored[:8].hex(), want[:8].hex()), fatal=False)
            continue
        if not m.names_of_blob(b.id):
            ctx.probes['hidden_boot_file'] += 1
        if b.bit:
            ctx.probes['boot_info_table_checked'] += 1
            exp = dec_boot.boot_info_table_expected(want, 16, e['rba'], b.length)
            n = max(0, min(56, b.length - 8))
            if stored[8:8 + n] != exp[:n]:
                got = struct.unpack('<IIII', stored[8:24]) if len(stored) >= 24 else None
                wantt = struct.unpack('<IIII', exp[:16])
                field = 'other'
                if got:
                    for k, nm in enumerate(('pvd-sector', 'file-sector', 'file-length', 'checksum')):
                        if got[k] != wantt[k]:
                            field = nm
                            break
                ctx.violate(('eltorito/boot-info-table', 'stored', field), 'entry %d: got %r want %r' % (i, got, wantt), fatal=False)
            # ... and as read back through the API under every remaining name
            for ns, path in m.names_of_blob(b.id)[:2]:
                try:
                    import io
                    out = io.BytesIO()
                    ctx.d.iso.get_file_from_iso_fp(out, **ctx.d._pathkw(ns, path))
                    rb = out.getvalue()
                except Exception as ex:
                    ctx.violate(('eltorito/boot-info-table', 'read-back-raised', type(ex).__name__), '%s %s: %r' % (ns, path, ex), fatal=False)
                    continue
                if rb[8:8 + n] != exp[:n] or rb[:8] != want[:8] or rb[64:] != want[64:]:
                    ctx.violate(('eltorito/boot-info-table', 'read-back', ns), '%s: got %s want %s' % (path, rb[8:24].hex(), exp[:16].hex()), fatal=False)
        elif not b.baked and stored != want:
            ctx.violate(('eltorito/boot-file-bytes-altered',), 'entry %d: stored bytes differ from the supplied ones' % i, fatal=False)
    # the catalog is reachable under all its names, all pointing at the catalog sector
    t = img.trees.get('iso')
    for ns in ('iso', 'joliet'):
        tree = img.trees.get(ns)
        if tree is None:
            continue
        for p, n in m.iter_ns(ns):
            if n.kind == 'file' and n.blob == 'cat':
                rec = tree.entries.get(m.phys(ns, p))
                if ns == 'joliet':
                    ctx.probes['catalog_name_joliet'] += 1
                if rec is None:
                    ctx.violate(('eltorito/catalog-name-missing', ns), p, fatal=False)
                elif rec.extent != et.catalog_lba or rec.size != 2048:
                    ctx.violate(('eltorito/catalog-name-extent', ns), '%s: extent %d size %d, catalog at %d' % (p, rec.extent, rec.size, et.catalog_lba), fatal=False)
    if m.has('udf'):
        u = dec_udf.decode(data)
        for p, n in m.iter_ns('udf'):
            if n.kind == 'file' and n.blob == 'cat':
                ctx.probes['catalog_name_udf'] += 1
                e = u.entries.get(p)
                if e is None:
                    ctx.violate(('eltorito/catalog-name-missing', 'udf'), p, fatal=False)
                elif not e.extents or u.part_start + e.extents[0][0] != et.catalog_lba or e.info_len != 2048:
                    ctx.violate(('eltorito/catalog-name-extent', 'udf'), '%s: %r info_len %d, catalog at %d' % (p, e.extents, e.info_len, et.catalog_lba), fatal=False)
    # API read of the catalog equals that sector
    cat = data[et.catalog_lba * 2048:(et.catalog_lba + 1) * 2048]
    for ns in m.roots:
        for p, n in m.iter_ns(ns):
            if n.kind == 'file' and n.blob == 'cat':
                import io
                out = io.BytesIO()
                try:
                    ctx.d.iso.get_file_from_iso_fp(out, **ctx.d._pathkw(ns, p))
                except Exception as ex:
                    ctx.violate(('eltorito/catalog-read-raised', ns, type(ex).__name__), '%s: %r' % (p, ex), fatal=False)
                    continue
                if out.getvalue() != cat:
                    ctx.violate(('eltorito/catalog-read-differs', ns), p, fatal=False)
                break


class C11(H.Oracle):
    prop = PROP
    judge_write_open = True       # an image whose boot catalog the library cannot read back is C11's business too

    def before_write(self, ctx):
        # the boot catalog is a file of the image too: read through one of its names while the edits are still
        # pending, it must already show what mastering is about to write
        import io
        self._cat_live = None
        m = ctx.model
        if not m.eltorito:
            return
        for ns in ('iso', 'joliet', 'udf'):
            if ns not in m.roots:
                continue
            for p, n in m.iter_ns(ns):
                if n.kind == 'file' and n.blob == 'cat':
                    out = io.BytesIO()
                    try:
                        ctx.d.iso.get_file_from_iso_fp(out, **{{'iso': 'iso_path', 'joliet': 'joliet_path', 'udf': 'udf_path'}[ns]: p})
                    except Exception as e:   # noqa
                        ctx.violate(('catalog-read-before-write', 'raised', type(e).__name__, ns), repr(e), fatal=False)
                        return
                    self._cat_live = (ns, p, out.getvalue())
                    ctx.probes['catalog_read_before_write'] += 1
                    return

    def on_write(self, ctx, disk, wf):
        data = bytes(disk.data)
        live = getattr(self, '_cat_live', None)
        if live is not None:
            from .. import dec_iso, dec_boot
            img = dec_iso.decode(data, want_trees=False)
            et = dec_boot.ElTorito(data).decode([(v.sector, v.raw) for v in img.boots])
            if et.present and et.catalog_lba:
                on_disc = data[et.catalog_lba * 2048:(et.catalog_lba + 1) * 2048]
                if live[2] != on_disc:
                    i = next((k for k in range(min(len(live[2]), len(on_disc))) if live[2][k] != on_disc[k]), min(len(live[2]), len(on_disc)))
                    ctx.violate(('catalog-read-before-write', 'differs-from-mastered', 'entry-field' if i >= 32 else 'validation-entry', live[0]),
                                'catalog read through %s %r before write_fp differs from the mastered catalog at byte %d: %s vs %s' % (
                                    live[0], live[1], i, live[2][i:i + 8].hex(), on_disc[i:i + 8].hex()), fatal=False)
        check_image(ctx, data)


def generate(seed, tier='quick'):
    return H.generate(seed, PROFILE)


def execute(plan):
    r = H.execute(plan, C11())
    r['nontrivial'] = r['nontrivial'] and bool(r['probes'].get('catalog_decoded'))
    return r


def sample_of(plan):
    return {'cfg': plan['cfg'], 'env': plan['env'], 'ops': plan['ops'][:12]}
