"""C06 - lazy metadata is transparent: bytes depend only on the edits.

The schedule property.  One edit history is executed on several replicas that
share the simulated clock reading per edit index and the entropy stream but
differ in *when* metadata is recomputed: always_consistent mode, or
force_consistency / record queries / listings / parked walks / reads /
extractions / scratch writes inserted by the seeded scheduler into the gaps of
the history."""
import hashlib
import io
import json
from collections import Counter

from .. import hist as H
from .. import gen as G
from .. import model as M
from .. import world as W
from .. import dec_iso, dec_udf
from ..disk import SimDisk, SimFile
from ..driver import Driver, Outcome
from . import c05

PROP = 'C06'
LEVEL = 'exploration'
RULE = ('one seeded edit history (3-20 edits, a restart - the same for every replica - in about one history in five) is run on a base replica (lazy, no extra calls) and on 2-4 further replicas whose '
        'schedule of metadata recomputation differs: always_consistent=True, or force_consistency / get_record / list_children (fully or partly '
        'consumed) / walk (parked across edits, resumed or abandoned) / open_file_from_iso+read / get_file_from_iso_fp / write_fp to a scratch '
        'disk (once or twice in a row) placed by the seeded scheduler in any gap; all replicas read the same simulated instant per edit index and '
        'the same entropy stream; final images must be byte-identical, two consecutive writes identical, and after force_consistency the '
        'extent/length reported by get_record for every path equal the decoders\' findings in the image written next; non-trivial: >= 3 accepted '
        'edits and >= 2 replicas compared; distinct = distinct (history shape, schedule digest)')
BUDGET = {'quick': 40, 'thorough': 900}
PROBES = ['replicas_compared', 'replica_restarted', 'always_consistent_replica', 'extra:force', 'extra:get_record', 'extra:list_children', 'extra:walk_parked_across_edit',
          'extra:read_file', 'extra:extract', 'extra:write_scratch', 'extra:write_scratch_twice', 'stale_generator_exception', 'records_vs_decoders_checked',
          'double_write_compared', 'cache_eviction_possible']
ASSUMPTIONS = ['extra calls do not advance the simulated clock (time is the simulator\'s to hold still), so any byte difference is order dependence',
               'exceptions raised by a stale resumed generator are recorded but not judged (the property speaks about the image, not the traversal)']
SHRINK_LIST_KEYS = ['ops', 'replicas']
CHUNK = 10

PROFILE = H.Profile('c06', nops=(3, 20), final_restart=False,
                    weights={'restart': 1.2, 'add_boot_file': 2, 'add_eltorito': 4, 'add_isohybrid': 2, 'dup_pvd': 0.3, 'rm_file': 9, 'rm_dir': 6, 'rm_link': 6,
                             're_add': 9, 'hide': 7})

EXTRA_KINDS = ('force', 'get_record', 'list_children', 'walk_start', 'read_file', 'extract', 'write_scratch', 'has')


def generate(seed, tier='quick'):
    plan = H.generate(seed, PROFILE)
    w = W.World(seed)
    r = w.rng('c06sched')
    # sometimes the history ends with add_isohybrid: nothing after it repairs what it leaves stale
    fm = M.Model(plan['cfg'])
    for op in plan['ops']:
        if M.valid(fm, op):
            fm.apply(op)
    if fm.eltorito and not fm.hybrid and r.random() < 0.5:
        hop = G.OpGen(w.rng('c06hyb.ops'), w.rng('c06hyb.args'), fm).g_add_isohybrid()
        if hop is not None and M.valid(fm, hop):
            hop['dt'] = 0.0
            plan['ops'].append(hop)
    # absolute instants per edit (frozen clock: every replica reads exactly these)
    t = plan['env']['clock0']
    for op in plan['ops']:
        t += max(0.0, op.get('dt', 0.0))
        op['t'] = t
    plan['t_final'] = t + r.choice((0.0, 1.0, 3600.0))
    plan['env']['clock_mode'] = 'frozen'
    # model states per gap, to draw query arguments from
    model = M.Model(plan['cfg'])
    states = [model.clone()]
    for op in plan['ops']:
        model.apply(op)
        states.append(model.clone())
    nrep = r.randint(2, 4)
    reps = []
    for k in range(nrep):
        rep = {'ac': False, 'extras': []}
        if k == 0 and r.random() < 0.6:
            rep['ac'] = True
            if r.random() < 0.5:
                reps.append(rep)
                continue
        n_extra = r.randint(1, 6)
        walk_id = 0
        for _ in range(n_extra):
            gap = r.randint(0, len(plan['ops']))
            st = states[gap]
            kind = r.choice(EXTRA_KINDS)
            ex = {'gap': gap, 'kind': kind}
            nss = [ns for ns in ('iso', 'joliet', 'udf', 'rr') if st.has(ns)]
            ns = r.choice(nss)
            src = 'iso' if ns == 'rr' else ns
            if kind in ('get_record', 'list_children', 'walk_start'):
                cands = st.dirs(src) if kind != 'get_record' else ['/'] + [p for p, n in st.iter_ns(src)]
                p = r.choice(cands)
                if ns == 'rr':
                    p = rr_path(st, p)
                    if p is None:
                        continue
                ex.update({'ns': ns, 'path': p})
                if kind == 'list_children':
                    ex['consume'] = r.choice((None, 0, 1, 2, 5))
                if kind == 'walk_start':
                    walk_id += 1
                    ex['id'] = walk_id
                    ex['steps'] = r.choice((0, 1, 2))
                    # resume or abandon in a later gap
                    later = r.randint(gap, len(plan['ops']))
                    rep['extras'].append(ex)
                    rep['extras'].append({'gap': later, 'kind': r.choice(('walk_next', 'walk_next', 'walk_drop')), 'id': walk_id, 'steps': r.choice((1, 3, 50))})
                    continue
            elif kind in ('read_file', 'extract'):
                files = [p for p, n in st.iter_ns(src) if n.kind == 'file' and n.blob != 'cat']
                if not files:
                    continue
                p = r.choice(files)
                if ns == 'rr':
                    p = rr_path(st, p)
                    if p is None:
                        continue
                ex.update({'ns': ns, 'path': p, 'n': r.choice((1, 100, 5000, -1)), 'bs': r.choice((1, 512, 2048, 8192, 1 << 20))})
            elif kind == 'write_scratch':
                ex['times'] = r.choice((1, 1, 2, 3))
            rep['extras'].append(ex)
        # pattern: look an entry up by its Rock Ridge path, let the history remove it and add the same path again, then
        # (after force_consistency) look it up once more - a lookup cache that outlives the removal answers with the dead record
        if r.random() < 0.8:
            for j, op in enumerate(plan['ops']):
                if op.get('_readd') and op.get('iso') and op.get('rr') and states[j].rr:
                    rp_parent = rr_path(states[j], M.split(op['iso'])[0])
                    if rp_parent is None:
                        continue
                    rp = (rp_parent if rp_parent != '/' else '') + '/' + op['rr']
                    first = next((g for g in range(j + 1) if states[g].get_rr(rp) is not None), None)
                    if first is None:
                        continue
                    rep['extras'].append({'gap': first, 'kind': 'get_record', 'ns': 'rr', 'path': rp})
                    rep['extras'].append({'gap': len(plan['ops']), 'kind': 'force'})
                    rep['extras'].append({'gap': len(plan['ops']), 'kind': 'get_record', 'ns': 'rr', 'path': rp})
                    plan['env']['cache'] = 256      # a memo too small to remember the first lookup would hide what this is after
                    break
        rep['extras'].sort(key=lambda e: e['gap'])
        reps.append(rep)
    plan['replicas'] = reps
    return plan


def rr_path(st, iso_path):
    if iso_path == '/':
        return '/'
    node = st.roots['iso']
    out = ''
    for c in iso_path.split('/')[1:]:
        node = node.children.get(c)
        if node is None or node.rr is None:
            return None
        out += '/' + node.rr
    return out


KW = {'iso': 'iso_path', 'joliet': 'joliet_path', 'udf': 'udf_path', 'rr': 'rr_path'}


def run_extra(ctx, d, ex, walks):
    iso = d.iso
    k = ex['kind']
    ctx.probes['extra:' + ('write_scratch_twice' if k == 'write_scratch' and ex.get('times', 1) > 1 else k if not k.startswith('walk') else 'walk')] += 0
    try:
        if k == 'force':
            iso.force_consistency()
            ctx.probes['extra:force'] += 1
        elif k == 'has':
            iso.has_rock_ridge(), iso.has_joliet(), iso.has_udf()
        elif k == 'get_record':
            rec = iso.get_record(**{KW[ex['ns']]: ex['path']})
            if rec is not None:
                rec.extent_location()
            ctx.probes['extra:get_record'] += 1
        elif k == 'list_children':
            g = iso.list_children(**{KW[ex['ns']]: ex['path']})
            if ex.get('consume') is None:
                for _ in g:
                    pass
            else:
                for _ in range(ex['consume']):
                    next(g, None)
            ctx.probes['extra:list_children'] += 1
        elif k == 'walk_start':
            g = iso.walk(**{KW[ex['ns']]: ex['path']})
            for _ in range(ex.get('steps', 0)):
                next(g, None)
            walks[ex['id']] = (g, ex['gap'])
        elif k == 'walk_next':
            ent = walks.get(ex['id'])
            if ent is not None:
                g, g0 = ent
                if ex['gap'] > g0:
                    ctx.probes['extra:walk_parked_across_edit'] += 1
                for _ in range(ex.get('steps', 1)):
                    if next(g, None) is None:
                        break
        elif k == 'walk_drop':
            ent = walks.pop(ex['id'], None)
            if ent is not None:
                ent[0].close()
        elif k == 'read_file':
            with iso.open_file_from_iso(**{KW[ex['ns']]: ex['path']}) as f:
                f.read(ex['n']) if ex['n'] >= 0 else f.read()
            ctx.probes['extra:read_file'] += 1
        elif k == 'extract':
            iso.get_file_from_iso_fp(io.BytesIO(), blocksize=ex['bs'], **{KW[ex['ns']]: ex['path']})
            ctx.probes['extra:extract'] += 1
        elif k == 'write_scratch':
            for _ in range(ex.get('times', 1)):
                iso.write_fp(SimFile(SimDisk('scratch'), 'wb'))
            ctx.probes['extra:write_scratch_twice' if ex.get('times', 1) > 1 else 'extra:write_scratch'] += 1
    except d.pexc.PyCdlibException as e:
        # a query on a path the edits removed meanwhile, a stale generator, a file without data: not judged
        if k.startswith('walk'):
            ctx.probes['stale_generator_exception'] += 1
        ctx.stats['extra_refused:%s' % k] += 1
    except (StopIteration, RuntimeError):
        ctx.probes['stale_generator_exception'] += 1
    except Exception as e:
        # a query that raises something else is a defect of the query (C16 judges reads); C06 judges the image
        ctx.stats['extra_raised:%s:%s' % (k, type(e).__name__)] += 1


def _fresh_entropy(w):
    """Every replica starts every entropy stream from its beginning, also the per-generation ones a restart switches to."""
    for name in [n for n in w._rngs if n.startswith('entropy.')]:
        del w._rngs[name]
    w.generation = 0
    w.reset_entropy('c06')


def run_replica(ctx, plan, rep, label):
    """Returns (image bytes, second image bytes, driver) or None when the history itself was refused."""
    w = ctx.world
    _fresh_entropy(w)
    cfg = dict(plan['cfg'])
    cfg['always_consistent'] = bool(rep.get('ac')) if rep is not None else False
    d = Driver(w, cfg)
    d.blocksize = plan.get('blocksize', 32768)
    try:
        w.clock.now = plan['env']['clock0']
        d.new()
        extras = (rep or {}).get('extras') or []
        walks = {}
        ops = list(plan['ops'])
        for i, op in enumerate(ops + [None]):
            for ex in extras:
                if ex['gap'] == i or (op is None and ex['gap'] >= i):
                    run_extra(ctx, d, ex, walks)
            if op is None:
                break
            if not M.valid(d.model, op):
                ctx.stats['skipped_invalid'] += 1
                continue
            w.clock.now = op.get('t', w.clock.now)
            if op['op'] == 'restart':
                # every replica reopens at the same point of the history (the object it gets is always-consistent or not as
                # the replica says); what was parsed is then recomputed on that replica's schedule
                try:
                    d.restart(via=('reuse-decoy' if op.get('reuse') == 'decoy' else 'reuse') if op.get('reuse') else 'fp')
                    d.model.apply(op)
                except Exception as e:
                    return ('refused', op, Outcome(False, e))
                ctx.probes['replica_restarted'] += 1
                continue
            out = d.apply(op)
            if not out.ok:
                return ('refused', op, out)
        w.clock.now = plan.get('t_final', w.clock.now)
        disk1 = SimDisk(label + '.1')
        try:
            d.iso.write_fp(SimFile(disk1, 'wb'), d.blocksize)
        except Exception as e:
            return ('write-failed', None, Outcome(False, e))
        disk2 = SimDisk(label + '.2')
        try:
            d.iso.write_fp(SimFile(disk2, 'wb'), d.blocksize)
        except Exception as e:
            return ('write-failed', None, Outcome(False, e))
        return ('ok', bytes(disk1.data), bytes(disk2.data), d)
    finally:
        d.close()


def sched_kinds(rep):
    ks = set()
    if rep.get('ac'):
        ks.add('always_consistent')
    for ex in rep.get('extras') or []:
        ks.add(ex['kind'] if not ex['kind'].startswith('walk') else 'walk')
    return '+'.join(sorted(ks)) or 'none'


def collect_records(d):
    """What record queries report (on the object as it is now) for every path of every namespace."""
    iso = d.iso
    m = d.model
    out = {}
    for ns in ('iso', 'joliet', 'udf'):
        if ns not in m.roots:
            continue
        for p, n in m.iter_ns(ns):
            try:
                r = iso.get_record(**{KW[ns]: p})
            except Exception:
                continue
            if r is None:
                continue
            try:
                out[(ns, p)] = (n.kind, r.extent_location(), r.get_data_length())
            except Exception:
                continue
    if m.rr:
        # the same records through their Rock Ridge paths (a lookup route with a memo of its own)
        for p, n in m.iter_ns('iso'):
            rp = rr_path(m, p)
            if rp is None:
                continue
            try:
                r = iso.get_record(rr_path=rp)
                out[('rr', p)] = (n.kind, r.extent_location(), r.get_data_length())
            except Exception:
                continue
    return out


def check_records(ctx, d, recs, data):
    """After force_consistency, record queries report what the decoders find in the image written next."""
    m = d.model
    img = dec_iso.decode(data)
    if not img.pvds or [a for a in img.anoms if not a.rule.startswith('ecma119.9.3/order') and not a.rule.startswith('ecma119.6.7.1/dup')]:
        return
    ctx.probes['records_vs_decoders_checked'] += 1
    u = dec_udf.decode(data) if 'udf' in m.roots else None
    for (ns, p), (kind, ext, ln) in sorted(recs.items()):
        if ns in ('iso', 'joliet', 'rr'):
            t = img.trees.get('iso' if ns == 'rr' else ns)
            rec = t.entries.get(d.model.phys('iso' if ns == 'rr' else ns, p)) if t is not None else None
            if rec is None or kind == 'symlink' or rec.parts:
                continue
            if kind == 'file' and rec.size == 0:
                continue
            if (ext, ln) != (rec.extent, rec.size):
                ctx.violate(('record-query-vs-image', ns, kind), '%s: get_record said extent %s length %s, the image written next has extent %s length %s' % (
                    p, ext, ln, rec.extent, rec.size), fatal=False)
                return
        elif u is not None:
            e = u.entries.get(p)
            if e is None:
                continue
            if ext * 2048 != e.fe_abs or (kind == 'file' and ln != e.info_len):
                ctx.violate(('record-query-vs-image', 'udf', kind), '%s: get_record said FE at %d length %d, the image written next has FE at %d length %d' % (
                    p, ext, ln, e.fe_abs // 2048, e.info_len), fatal=False)
                return


class _Ctx:
    def __init__(self, plan, world):
        self.plan = plan
        self.world = world
        self.violations = []
        self.stats = Counter()
        self.probes = Counter()
        self.status = 'ok'
        self.note = None

    def violate(self, sig, detail='', fatal=True):
        sig = [str(s) for s in sig]
        if any(v['sig'] == sig for v in self.violations):
            return
        self.violations.append({'sig': sig, 'detail': str(detail)[:2000]})
        self.status = 'violation'


def execute(plan):
    env = plan['env']
    w = W.World(plan['seed'], tz=env['tz'], clock0=env['clock0'], clock_mode='frozen', cache=env['cache'], max_extent=env.get('max_extent'))
    ctx = _Ctx(plan, w)
    h = hashlib.blake2b(digest_size=16)
    accepted = 0
    with w:
        if env['cache'] < 256:
            ctx.probes['cache_eviction_possible'] += 1
        base = run_replica(ctx, plan, None, 'base')
        if base[0] != 'ok':
            ctx.status = 'inconclusive'
            ctx.note = 'base replica: %s %s' % (base[0], base[2].sig() if base[2] is not None else '')
            ctx.stats['inconclusive:base-%s' % base[0]] += 1
        else:
            _, b1, b2, dbase = base
            accepted = len([o for o in plan['ops'] if o['op'] != 'restart'])
            h.update(hashlib.blake2b(b1, digest_size=16).digest())
            ctx.probes['double_write_compared'] += 1
            if b1 != b2:
                off = c05.first_diff(b1, b2, [])
                ctx.violate(('consecutive-writes-differ',) + c05.classify(b1, off, dbase.model), 'first difference at byte %d' % off, fatal=False)
            for k, rep in enumerate(plan.get('replicas') or []):
                res = run_replica(ctx, plan, rep, 'rep%d' % k)
                kinds = sched_kinds(rep)
                if res[0] != 'ok':
                    # the same edits are accepted on the base replica: a schedule-dependent refusal or failure
                    out = res[2]
                    ctx.violate(('replica-' + res[0], kinds, out.etype, out.where), '%s: %s' % (res[1]['op'] if res[1] else 'write_fp', out.msg), fatal=False)
                    continue
                _, r1, r2, drep = res
                ctx.probes['replicas_compared'] += 1
                if rep.get('ac'):
                    ctx.probes['always_consistent_replica'] += 1
                h.update(hashlib.blake2b(r1, digest_size=16).digest())
                if r1 != b1:
                    off = c05.first_diff(b1, r1, [])
                    if len(b1) != len(r1) and off >= min(len(b1), len(r1)):
                        ctx.violate(('replica-diff', 'length', kinds), 'base %d bytes, replica %d bytes' % (len(b1), len(r1)), fatal=False)
                    else:
                        ctx.violate(('replica-diff',) + c05.classify(b1, off, dbase.model) + (kinds,),
                                    'first difference at byte %d (sector %d +%d): %s vs %s' % (off, off // 2048, off % 2048, b1[off:off + 8].hex(), r1[off:off + 8].hex()), fatal=False)
                if r1 != r2:
                    off = c05.first_diff(r1, r2, [])
                    ctx.violate(('consecutive-writes-differ',) + c05.classify(r1, off, drep.model) + (kinds,), 'first difference at byte %d' % off, fatal=False)
                if any(ex['kind'] == 'force' for ex in rep.get('extras') or []):
                    # records after force_consistency vs the image written next
                    drep2 = None
                    res2 = run_replica_with_record_check(ctx, plan, rep)
    sched = hashlib.blake2b(json.dumps(plan.get('replicas'), sort_keys=True).encode(), digest_size=8).hexdigest()
    m = M.Model(plan['cfg'])
    for op in plan['ops']:
        if M.valid(m, op):
            m.apply(op)
    return {
        'status': ctx.status, 'violations': ctx.violations, 'stats': dict(ctx.stats), 'probes': dict(ctx.probes),
        'fingerprint': hashlib.blake2b((repr(m.shape()) + sched).encode(), digest_size=8).hexdigest(),
        'digest': h.hexdigest() + ':' + ctx.status + ':' + str(len(ctx.violations)),
        'nontrivial': accepted >= 3 and ctx.probes.get('replicas_compared', 0) >= 1,
        'sim_seconds': plan.get('t_final', 0) - env['clock0'], 'note': ctx.note,
    }


def run_replica_with_record_check(ctx, plan, rep):
    """Re-run the replica, then force_consistency, query every record, write, compare with the decoders."""
    w = ctx.world
    _fresh_entropy(w)
    cfg = dict(plan['cfg'])
    cfg['always_consistent'] = bool(rep.get('ac'))
    d = Driver(w, cfg)
    try:
        w.clock.now = plan['env']['clock0']
        d.new()
        for op in plan['ops']:
            if not M.valid(d.model, op):
                continue
            w.clock.now = op.get('t', w.clock.now)
            if op['op'] == 'restart':
                try:
                    d.restart()
                    d.model.apply(op)
                except Exception:
                    return
                continue
            if not d.apply(op).ok:
                return
        w.clock.now = plan.get('t_final', w.clock.now)
        try:
            d.iso.force_consistency()
        except Exception:
            return
        disk = SimDisk('reccheck')
        # query first (right after force_consistency), then write, then decode
        recs = collect_records(d)
        try:
            d.iso.write_fp(SimFile(disk, 'wb'))
        except Exception:
            return
        check_records(ctx, d, recs, bytes(disk.data))
    finally:
        d.close()


def simplifications(plan):
    """Drop single extras, turn always_consistent off, one at a time."""
    for k, rep in enumerate(plan.get('replicas') or []):
        for j in range(len(rep.get('extras') or [])):
            p2 = json.loads(json.dumps(plan))
            del p2['replicas'][k]['extras'][j]
            yield p2
        if rep.get('ac') and rep.get('extras'):
            p2 = json.loads(json.dumps(plan))
            p2['replicas'][k]['ac'] = False
            yield p2
    if plan['env'].get('cache') != 256:
        p2 = json.loads(json.dumps(plan))
        p2['env']['cache'] = 256
        yield p2
    if plan['env'].get('tz') != 'UTC0':
        p2 = json.loads(json.dumps(plan))
        p2['env']['tz'] = 'UTC0'
        yield p2


def sample_of(plan):
    return {'cfg': plan['cfg'], 'env': plan['env'], 'ops': plan['ops'][:10], 'replicas': plan.get('replicas')}
