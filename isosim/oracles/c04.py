"""C04 - sector allocation is sound: no overlap, in bounds, exact size, shared iff linked."""
from .. import hist as H
from .. import gen as G
from .. import alloc

PROP = 'C04'
LEVEL = 'exploration'
RULE = ('HIST histories biased to grow and shrink directories, path tables, continuation blocks and the UDF partition (adds, removes, '
        'links, restarts) in both consistency modes; after every write_fp the allocation map built from the independent decoders '
        '(volume descriptors, path tables, directories, continuation areas, boot catalog, UDF structures, file data) is checked for '
        'overlap, bounds, declared size and sharing-iff-linked, and the complete write log of write_fp for stray and double writes; '
        'non-trivial: >= 3 accepted edits and >= 1 write; distinct = model shape fingerprints')
BUDGET = {'quick': 40, 'thorough': 900}
PROBES = ['maps_built', 'objects_checked', 'ce_areas', 'udf_maps', 'hybrid_maps', 'shared_extents', 'writes_checked', 'after_removal']
ASSUMPTIONS = ['the decoders find every object pycdlib lays out (each pointer is followed from the volume descriptors / anchors)',
               'slack inside the declared volume is not a violation; only overlap, out-of-bounds, wrong total length, wrong sharing, stray or double writes are']

PROFILE = H.Profile('c04', nops=(4, 28),
                    weights={'add_dir': 20, 'rm_dir': 10, 'rm_file': 12, 'rm_link': 8, 'add_link': 10, 'add_symlink': 6, 'add_eltorito': 3,
                             'add_boot_file': 3, 'add_isohybrid': 2, 'dup_pvd': 0.5, 'restart': 6, 'ptr_cycle': 0.3})


class C04(H.Oracle):
    prop = PROP

    def on_edit(self, ctx, op, out):
        if op['op'].startswith('rm_'):
            ctx.probes['after_removal'] += 1

    def on_write(self, ctx, disk, wf):
        data = bytes(disk.data)
        am = alloc.build(data, ctx.model)
        ctx.probes['maps_built'] += 1
        ctx.probes['objects_checked'] += len(am.objects)
        if am.ce:
            ctx.probes['ce_areas'] += 1
        if am.udf is not None and am.udf.present:
            ctx.probes['udf_maps'] += 1
        if ctx.model.hybrid:
            ctx.probes['hybrid_maps'] += 1
        if any(len(v) > 1 for v in am.names_by_extent.values()):
            ctx.probes['shared_extents'] += 1
        probs = alloc.check(am, data, ctx.model, hybrid=bool(ctx.model.hybrid))
        if not any(p[0][0] == 'decode' for p in probs):
            probs += alloc.check_write_log(am, wf.writes, data)
            ctx.probes['writes_checked'] += len(wf.writes)
        for rule, detail in probs:
            ctx.violate(rule, detail, fatal=False)


def generate(seed, tier='quick'):
    return H.generate(seed, PROFILE)


def execute(plan):
    return H.execute(plan, C04())


def sample_of(plan):
    return {'cfg': plan['cfg'], 'env': plan['env'], 'ops': plan['ops'][:12]}
