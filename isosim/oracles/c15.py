"""C15 - hostile or damaged images: open terminates with a documented error.

Exploration with storage faults.  A seeded history masters a small valid image
(every configuration); then stored-byte faults are applied to copies of it and
each damaged copy is handed to open_fp: truncation at structure boundaries +-1
and at random bytes, torn mastering (a prefix or a subset of the recorded write
log), zeroed / duplicated / misdirected / stale sectors, field-aware corruption
through the independent decoders' field maps (lengths, extents, counts, tags,
pointers set to 0, 1, max, image size +-1, own location, another structure's
location, random; singly and in pairs; UDF tag checksums optionally re-fixed so
that the damage gets past the first check), a backing file whose seek(0,
SEEK_END) raises, and random byte strings.  Promptness is decided
deterministically: sys.monitoring event counts, bytes requested from the
SimFile and (sampled) tracemalloc peaks against budgets proportional to the
valid parent image."""
import hashlib
import json
import os
import struct
import sys
import tracemalloc
from collections import Counter

from .. import hist as H
from .. import gen as G
from .. import model as M
from .. import world as W
from .. import alloc, dec_iso, dec_susp, dec_udf, dec_boot
from ..disk import SimDisk, SimFile, RecordingFile, Fault
from ..driver import Driver, Outcome, innermost

PROP = 'C15'
LEVEL = 'exploration'
RULE = ('a seeded history masters a valid image of <= ~400 sectors; 24 (quick) / 80 (thorough) damaged variants of it are opened, each variant one '
        'or two stored-byte faults drawn from: truncate, torn-write-prefix, lost-writes, zero-sector, copy-sector, stale-sector, field corruption '
        '(decoder field maps of ISO9660, SUSP, El Torito, isohybrid, UDF) with values {0,1,max,size-1,size,size+1,own location,other location,'
        'random}, seek-end failure, random bytes; oracle: open_fp returns or raises a PyCdlibException subclass, within 50x the event count of the '
        'valid parent + 2M events, 64x the image size + 16 MiB of bytes requested, 64x + 64 MiB of traced memory; non-trivial: a variant whose '
        'damaged bytes lie inside an object the decoders mapped; distinct = distinct (fault kind, structure/field, value class) triples')
BUDGET = {'quick': 45, 'thorough': 900}
PROBES = ['variants_opened', 'open_succeeded', 'open_refused_documented', 'fault:truncate', 'fault:torn-prefix', 'fault:lost-writes', 'fault:zero-sector',
          'fault:copy-sector', 'fault:stale-sector', 'fault:field', 'fault:field-pair', 'fault:seek-end', 'fault:random-bytes', 'fault:alias-dirs', 'fault:dup-chain', 'fault:struct-extremes', 'udf_tag_refixed',
          'memory_measured', 'variants_skipped_run_step_budget', 'images_with_udf', 'images_with_rr', 'images_with_eltorito', 'images_with_hybrid']
ASSUMPTIONS = ['"promptly" = within min(50 x parent + 2M, max(4M, 4 x parent)) + 2 per image byte interpreter events, parent = opening the undamaged image; a deterministic measure independent of machine load',
               'one run spends at most 4M events on damaged variants (the rest are skipped and counted in variants_skipped_run_step_budget)',
               'the 60 s soft / 120 s hard wall limits of the runner only guard against a stall outside Python code and end in exit 2, never in a verdict']
SHRINK_LIST_KEYS = ['faults', 'ops']
CHUNK = 4

PROFILE = H.Profile('c15', nops=(2, 12), final_restart=False,
                    weights={'add_boot_file': 3, 'add_eltorito': 5, 'add_isohybrid': 3, 'hybrid_setup': 2.5, 'chain_dirs': 2.5, 'shared_hidden_boot': 2.5, 'dup_pvd': 0.5, 'restart': 1, 'add_symlink': 8, 'mass_dirs': 0.4, 'mass_files': 0.4},
                    sizes=(0, 1, 100, 2047, 2048, 2049, 6000, 20480))

VALUES = ('zero', 'one', 'max', 'size-1', 'size', 'size+1', 'own', 'other', 'random', 'half', 'plus1', 'minus1', 'same-kind', 'same-kind')


RUN_STEP_BUDGET = 4000000     # interpreter events one run may spend on damaged variants (a parent with a large boot file costs 0.3M per open)


class BudgetExceeded(BaseException):
    pass


def generate(seed, tier='quick'):
    plan = H.generate(seed, PROFILE)
    w = W.World(seed)
    r = w.rng('c15')
    n = 80 if tier == 'thorough' else 24
    faults = []
    for _ in range(n):
        k = r.random()
        if k < 0.12:
            f = [{'kind': 'truncate', 'where': r.choice(('boundary', 'boundary', 'random', 'sector')), 'pick': r.random(), 'delta': r.choice((-1, 0, 1, -2048, 17))}]
        elif k < 0.2:
            f = [{'kind': 'torn-prefix', 'frac': r.random()}]
        elif k < 0.26:
            f = [{'kind': 'lost-writes', 'seed': r.getrandbits(32), 'p': r.choice((0.02, 0.1, 0.3))}]
        elif k < 0.33:
            f = [{'kind': 'zero-sector', 'pick': r.random()}]
        elif k < 0.40:
            f = [{'kind': 'copy-sector', 'src': r.random(), 'dst': r.random()}]
        elif k < 0.45:
            f = [{'kind': 'stale-sector', 'pick': r.random()}]
        elif k < 0.80:
            f = [{'kind': 'field', 'pick': r.random(), 'value': r.choice(VALUES), 'both_endian': r.random() < 0.7, 'refix': r.random() < 0.7, 'rnd': r.getrandbits(32)}]
            if r.random() < 0.3:
                f.append({'kind': 'field', 'pick': r.random(), 'value': r.choice(VALUES), 'both_endian': r.random() < 0.7, 'refix': r.random() < 0.7, 'rnd': r.getrandbits(32)})
        elif k < 0.81:
            f = [{'kind': 'seek-end'}]
        elif k < 0.835:
            f = [{'kind': 'alias-dirs', 'seed': r.getrandbits(32), 'p': r.choice((0.3, 1.0, 1.0)), 'to': r.choice(('child', 'child', 'self', 'parent'))}]
        elif k < 0.86:
            f = [{'kind': 'dup-chain', 'copies': r.choice((1, 3, 1000, 1000))}]      # 1000: as many as fit in the directory's last sector
        elif k < 0.9:
            f = [{'kind': 'struct-extremes', 'pick': r.random(), 'seed': r.getrandbits(32)}]
        else:
            f = [{'kind': 'random-bytes', 'len': r.choice((0, 1, 2047, 2048, 32768, 34816, 36864, 40000, 65536, 100000)), 'seed': r.getrandbits(32),
                  'keep_pvd_magic': r.random() < 0.5}]
        faults.append(f)
    plan['faults'] = faults
    return plan


def field_maps(data, model):
    """Every (offset, length, meaning) the independent decoders follow."""
    fields = []
    img = dec_iso.decode(data)
    if img.pvds:
        sus = dec_susp.SuspDecoder(img, data)
        try:
            if 'iso' in img.trees:
                sus.decode_tree(img.trees['iso'])
        except Exception:
            pass
        fields += img.fields
        et = dec_boot.ElTorito(data).decode([(v.sector, v.raw) for v in img.boots])
        fields += et.fields
    hy = dec_boot.Hybrid(data).decode()
    fields += hy.fields
    u = dec_udf.decode(data)
    fields += u.fields
    # de-duplicate, keep order stable
    seen = set()
    out = []
    for f in fields:
        if f[0] + f[1] <= len(data) and (f[0], f[1]) not in seen and f[1] in (1, 2, 4, 8, 16, 17, 34, 7):
            seen.add((f[0], f[1]))
            out.append(f)
    boundaries = sorted({0, len(data)} | {f[0] for f in out} | {f[0] + f[1] for f in out} | set(range(0, len(data), 2048)))
    return out, boundaries


def value_for(kind, width, size_sectors, own, other, rnd):
    mx = (1 << (8 * min(width, 4))) - 1
    v = {'zero': 0, 'one': 1, 'max': mx, 'same-kind': other, 'size-1': size_sectors - 1, 'size': size_sectors, 'size+1': size_sectors + 1, 'own': own, 'other': other,
         'random': rnd, 'half': max(1, own // 2), 'plus1': own + 1, 'minus1': max(0, own - 1)}[kind]
    return v & mx


def corrupt_field(ba, f, spec, fields, nsect, ctx):
    off, ln, meaning = f
    cur = int.from_bytes(ba[off:off + min(ln, 4)], 'little')
    own_sector = off // 2048
    rnd = spec['rnd']
    other = fields[rnd % len(fields)][0] // 2048
    kind = spec['value']
    if kind == 'same-kind':
        # a pointer (or count) takes the value of another field of the same meaning: misdirected, aliased, looping structures
        mk = str(meaning).split('@')[0].split('[')[0]
        peers = [g for g in fields if g[1] == ln and g[0] != off and str(g[2]).split('@')[0].split('[')[0] == mk]
        if peers:
            src = peers[rnd % len(peers)]
            ba[off:off + ln] = ba[src[0]:src[0] + ln]
            if spec.get('refix'):
                if mk == 'fid.icb' and refix_udf_tag(ba, off - 20):
                    ctx.probes['udf_tag_refixed'] += 1
                elif mk.split('.')[0] in ('tag', 'avdp', 'pd', 'lvd', 'lvid', 'fsd', 'fe', 'ad') and refix_udf_tag(ba, (off // 2048) * 2048):
                    ctx.probes['udf_tag_refixed'] += 1
            return '%s=same-kind' % meaning
        kind = 'other'
    base = {'own': own_sector, 'plus1': cur, 'minus1': cur, 'half': cur}.get(kind, own_sector)
    v = value_for(kind, ln if ln <= 4 else 4, nsect, base if kind in ('plus1', 'minus1', 'half') else own_sector, other, rnd)
    if ln in (1, 2, 4):
        ba[off:off + ln] = v.to_bytes(ln, 'little')
    elif ln == 8:
        # both-endian 32-bit (ISO9660) or a 64-bit little-endian field (UDF)
        if meaning.startswith(('vd.', 'dr.', 'ce.', 'px.', 'cl.', 'pl.')):
            ba[off:off + 4] = v.to_bytes(4, 'little')
            if spec.get('both_endian'):
                ba[off + 4:off + 8] = v.to_bytes(4, 'big')
        else:
            ba[off:off + 8] = v.to_bytes(8, 'little')
    elif ln == 16:
        ba[off:off + 4] = v.to_bytes(4, 'little')       # long_ad length
        ba[off + 4:off + 8] = ((v * 7 + 1) & 0xffffffff).to_bytes(4, 'little')
    else:
        for k in range(ln):
            ba[off + k] = (rnd >> (k % 4 * 8)) & 0xff
    if spec.get('refix') and (meaning.split('.')[0] in ('tag', 'avdp', 'pd', 'lvd', 'lvid', 'fsd', 'fe', 'ad', 'fid')):
        base_off = (off // 2048) * 2048
        if refix_udf_tag(ba, base_off):
            ctx.probes['udf_tag_refixed'] += 1
    return '%s=%s' % (meaning, kind)


def refix_udf_tag(ba, base):
    if base + 16 > len(ba):
        return False
    tid, ver, csum, res, serial, crc, crc_len, loc = struct.unpack_from('<HHBBHHHI', ba, base)
    if tid not in (1, 2, 4, 5, 6, 7, 8, 9, 256, 257, 261, 266) or base + 16 + crc_len > len(ba):
        return False
    struct.pack_into('<H', ba, base + 8, dec_udf.crc_fast(bytes(ba[base + 16:base + 16 + crc_len])))
    t = ba[base:base + 16]
    ba[base + 4] = (sum(t) - t[4]) & 0xff
    return True


def apply_faults(flist, data, prev_data, writes, fields, boundaries, ctx):
    """Returns (damaged bytes, SimFile fault plan, label, touched offsets)."""
    ba = bytearray(data)
    nsect = len(data) // 2048
    labels = []
    file_faults = None
    touched = []
    for spec in flist:
        k = spec['kind']
        ctx.probes['fault:' + ('field-pair' if k == 'field' and len(flist) > 1 else k)] += 1
        if k == 'truncate':
            if spec['where'] == 'boundary' and boundaries:
                at = boundaries[int(spec['pick'] * len(boundaries)) % len(boundaries)] + spec['delta']
            elif spec['where'] == 'sector':
                at = int(spec['pick'] * nsect) * 2048 + spec['delta']
            else:
                at = int(spec['pick'] * len(ba))
            at = max(0, min(len(ba), at))
            del ba[at:]
            labels.append('truncate')
            touched.append(at)
        elif k == 'torn-prefix':
            n = int(spec['frac'] * len(writes))
            out = bytearray()
            for off, b in writes[:n]:
                if off > len(out):
                    out.extend(b'\x00' * (off - len(out)))
                out[off:off + len(b)] = b
            ba = out
            labels.append('torn-prefix')
        elif k == 'lost-writes':
            import random as _r
            rr = _r.Random(spec['seed'])
            out = bytearray(len(data))
            for off, b in writes:
                if rr.random() < spec['p']:
                    continue
                out[off:off + len(b)] = b
            ba = out
            labels.append('lost-writes')
        elif k == 'zero-sector' and nsect:
            s = int(spec['pick'] * nsect)
            ba[s * 2048:(s + 1) * 2048] = b'\x00' * min(2048, len(ba) - s * 2048)
            labels.append('zero-sector')
            touched.append(s * 2048)
        elif k == 'copy-sector' and nsect:
            s, d = int(spec['src'] * nsect), int(spec['dst'] * nsect)
            chunk = bytes(ba[s * 2048:(s + 1) * 2048])
            ba[d * 2048:d * 2048 + len(chunk)] = chunk
            labels.append('copy-sector')
            touched.append(d * 2048)
        elif k == 'stale-sector' and nsect and prev_data:
            s = int(spec['pick'] * nsect)
            chunk = prev_data[s * 2048:(s + 1) * 2048]
            if chunk:
                ba[s * 2048:s * 2048 + len(chunk)] = chunk
            labels.append('stale-sector')
            touched.append(s * 2048)
        elif k == 'field' and fields:
            f = fields[int(spec['pick'] * len(fields)) % len(fields)]
            labels.append(corrupt_field(ba, f, spec, fields, nsect, ctx))
            touched.append(f[0])
        elif k == 'seek-end':
            file_faults = [Fault('seek', 'seekend_raise', err=22)]
            labels.append('seek-end')
        elif k == 'alias-dirs':
            # a hostile rather than a damaged image: in every directory the records of files are turned into further
            # records of one of its sub-directories (or of the directory itself, or of its parent)
            import random as _r
            rr = _r.Random(spec['seed'])
            try:
                img = dec_iso.decode(bytes(ba))
                t = img.trees.get('iso')
                for d in (t.dirs if t is not None else []):
                    kids = [c for c in (d.children or [])[2:]]
                    subs = [c for c in kids if c.is_dir]
                    tgt = {'child': subs[0] if subs else None, 'self': d, 'parent': d.parent or d}[spec['to']]
                    if tgt is None:
                        continue
                    for c in kids:
                        if c.is_dir or rr.random() > spec['p']:
                            continue
                        ba[c.off + 2:c.off + 6] = tgt.extent.to_bytes(4, 'little')
                        ba[c.off + 6:c.off + 10] = tgt.extent.to_bytes(4, 'big')
                        ba[c.off + 10:c.off + 14] = tgt.size.to_bytes(4, 'little')
                        ba[c.off + 14:c.off + 18] = tgt.size.to_bytes(4, 'big')
                        ba[c.off + 25] |= 2
                        touched.append(c.off)
            except Exception:
                pass
            labels.append('alias-dirs:' + spec['to'])
        elif k == 'dup-chain':
            # a hostile image of the zip-bomb kind: along the deepest chain of directories every directory lists the next
            # one several times (further copies of its record in the slack behind the last record)
            try:
                img = dec_iso.decode(bytes(ba))
                t = img.trees.get('iso')
                deepest = None
                for d in (t.dirs if t is not None else []):
                    if deepest is None or (d.path or '').count('/') > (deepest.path or '').count('/'):
                        deepest = d
                chain = []
                while deepest is not None and deepest.parent is not None:
                    chain.append(deepest)
                    deepest = deepest.parent
                for child in chain:
                    par = child.parent
                    kids = (par.children or [])
                    end = max(c.off + c.length for c in kids)
                    rec = bytes(ba[child.off:child.off + child.length])
                    room_end = (end // 2048 + 1) * 2048
                    idlen = rec[32]
                    for i in range(spec['copies']):
                        if end + len(rec) > room_end or idlen < 1:
                            break
                        alt = bytearray(rec)
                        # the copies differ in the last character of the identifier, as the names in one directory must
                        ch = b'0123456789ABCDEFGHIJKLMNOPQRSTUVWXYZ_'[i % 37]
                        alt[33 + idlen - 1] = ch if ch != rec[33 + idlen - 1] else 0x21
                        if idlen >= 2:
                            alt[33 + idlen - 2] = b'0123456789ABCDEFGHIJKLMNOPQRSTUVWXYZ_'[(i // 37) % 37]
                        ba[end:end + len(rec)] = alt
                        end += len(rec)
                        touched.append(end)
            except Exception:
                pass
            labels.append('dup-chain')
        elif k == 'struct-extremes' and fields:
            # every count, size and length of one structure goes to an extreme at once
            import random as _r
            rr = _r.Random(spec['seed'])
            def countlike(m_):
                return any(w in str(m_).lower() for w in ('num', 'count', 'size', 'len', 'entries', 'n_'))
            pool = [f for f in fields if countlike(f[2])] or fields
            small = [f for f in pool if str(f[2]).startswith(('gpt.', 'mbr.', 'eltorito.', 'apm.'))]
            if small and rr.random() < 0.4:
                pool = small          # the small fixed-size structures, where a few fields decide how much is read
            f0 = pool[int(spec['pick'] * len(pool)) % len(pool)]
            sec = f0[0] // 2048
            n = 0
            for off, ln, meaning in fields:
                if off // 2048 != sec or ln not in (1, 2, 4, 8):
                    continue
                if not countlike(meaning):
                    continue
                w_ = min(ln, 4)
                choice = rr.choice(('keep', 'zero', 'max', 'max'))
                if choice == 'keep':
                    continue
                val = 0 if choice == 'zero' else (1 << (8 * w_)) - 1
                ba[off:off + w_] = val.to_bytes(w_, 'little')
                n += 1
                touched.append(off)
            labels.append('struct-extremes:%s' % str(f0[2]).split('.')[0])
        elif k == 'random-bytes':
            import random as _r
            rr = _r.Random(spec['seed'])
            ba = bytearray(rr.getrandbits(8) for _ in range(spec['len']))
            if spec.get('keep_pvd_magic') and len(ba) >= 17 * 2048:
                ba[16 * 2048:16 * 2048 + 7] = b'\x01CD001\x01'
            labels.append('random-bytes')
    return bytes(ba), file_faults, '+'.join(labels), touched


def phase_of(exc):
    """The function _open_fp had called when exc was raised (stable however deep the loop was)."""
    tb = exc.__traceback__
    names = []
    while tb is not None:
        names.append(tb.tb_frame.f_code.co_name)
        tb = tb.tb_next
    if '_open_fp' in names:
        i = names.index('_open_fp')
        if i + 1 < len(names):
            return names[i + 1]
    return names[-1] if names else '?'


class Meter:
    """Deterministic step counter on sys.monitoring (3.12)."""

    def __init__(self):
        self.n = 0
        self.limit = None
        self.on = False
        self.mon = getattr(sys, 'monitoring', None)

    def start(self, limit):
        self.n = 0
        self.limit = limit
        if self.mon is None:
            return
        m = self.mon
        try:
            m.use_tool_id(m.PROFILER_ID, 'isosim-c15')
        except ValueError:
            pass
        ev = m.events.PY_START | m.events.JUMP

        def cb(*a):
            self.n += 1
            if self.limit is not None and self.n > self.limit:
                self.limit = None
                raise BudgetExceeded('steps')
        m.register_callback(m.PROFILER_ID, m.events.PY_START, cb)
        m.register_callback(m.PROFILER_ID, m.events.JUMP, cb)
        m.set_events(m.PROFILER_ID, ev)
        self.on = True

    def stop(self):
        if self.mon is not None and self.on:
            m = self.mon
            m.set_events(m.PROFILER_ID, 0)
            m.register_callback(m.PROFILER_ID, m.events.PY_START, None)
            m.register_callback(m.PROFILER_ID, m.events.JUMP, None)
            try:
                m.free_tool_id(m.PROFILER_ID)
            except Exception:
                pass
            self.on = False
        return self.n


class _Ctx:
    def __init__(self):
        self.violations = []
        self.stats = Counter()
        self.probes = Counter()
        self.status = 'ok'
        self.note = None

    def violate(self, sig, detail=''):
        sig = [str(s) for s in sig]
        if any(v['sig'] == sig for v in self.violations):
            return
        self.violations.append({'sig': sig, 'detail': str(detail)[:1500]})
        self.status = 'violation'


def open_measured(pm, pexc, data, file_faults, step_limit, measure_mem):
    disk = SimDisk('damaged', data)
    disk.keep_log = False
    fp = SimFile(disk, 'rb', file_faults)
    iso = pm.PyCdlib()
    meter = Meter()
    peak = None
    if measure_mem:
        tracemalloc.start()
    meter.start(step_limit)
    res = None
    try:
        try:
            iso.open_fp(fp)
            res = ('ok', None)
        except BudgetExceeded as e:
            res = ('budget', e)
        except Exception as e:
            res = ('exc', e)
    finally:
        steps = meter.stop()
        if measure_mem:
            peak = tracemalloc.get_traced_memory()[1]
            tracemalloc.stop()
    return res, steps, disk.bytes_requested, peak


def execute(plan):
    env = plan['env']
    w = W.World(plan['seed'], tz=env['tz'], clock0=env['clock0'], clock_mode=env['clock_mode'], cache=env['cache'], max_extent=env.get('max_extent'))
    ctx = _Ctx()
    h = hashlib.blake2b(digest_size=16)
    triples = set()
    nontrivial = 0
    with w:
        d = Driver(w, plan['cfg'])
        d.blocksize = plan.get('blocksize', 32768)
        try:
            d.new()
            prev = None
            ok = True
            for op in plan['ops']:
                if op['op'] == 'restart':
                    try:
                        disk0 = d.restart()
                        prev = bytes(disk0.data)
                        d.model.apply(op)
                    except Exception:
                        ok = False
                        break
                    continue
                if not M.valid(d.model, op):
                    continue
                if not d.apply(op).ok:
                    ok = False
                    break
            data = None
            if ok:
                try:
                    disk = SimDisk('valid')
                    wf = RecordingFile(disk, 'wb')
                    d.iso.write_fp(wf, d.blocksize)
                    data = bytes(disk.data)
                except Exception:
                    ok = False
            if not ok or data is None or len(data) > 6 * 1024 * 1024:
                ctx.status = 'inconclusive'
                ctx.note = 'no valid parent image'
            else:
                m = d.model
                for flag, probe in ((m.has('udf'), 'images_with_udf'), (bool(m.rr), 'images_with_rr'), (bool(m.eltorito), 'images_with_eltorito'), (bool(m.hybrid), 'images_with_hybrid')):
                    if flag:
                        ctx.probes[probe] += 1
                res, base_steps, _, _ = open_measured(d.pm, d.pexc, data, None, None, False)
                if res[0] != 'ok':
                    ctx.status = 'inconclusive'
                    ctx.note = 'the valid parent image does not open: %r' % (res[1],)
                else:
                    fields, boundaries = field_maps(data, m)
                    spans = sorted((s, s + l) for (k, s, l) in alloc.build(data, m).objects if k != 'file')
                    # + 2 events per byte: one linear pass over the image (the boot-info-table checksum of a boot file whose damaged
                    # length reaches to the end of a cylinder-padded image) is in proportion to the input
                    step_limit = min(50 * base_steps + 2000000, max(4000000, 4 * base_steps)) + 2 * len(data)
                    spent = 0
                    for vi, flist in enumerate(plan.get('faults') or []):
                        if spent > RUN_STEP_BUDGET:
                            # counted in interpreter events, not wall time, so the cut is the same on every replay
                            ctx.probes['variants_skipped_run_step_budget'] += 1
                            continue
                        dmg, ff, label, touched = apply_faults(flist, data, prev, wf.writes, fields, boundaries, ctx)
                        measure_mem = (vi % 6 == 0)
                        res, steps, requested, peak = open_measured(d.pm, d.pexc, dmg, ff, step_limit, measure_mem)
                        ctx.probes['variants_opened'] += 1
                        spent += steps
                        kinds = '+'.join(sorted(f['kind'] for f in flist))
                        triples.add(label)
                        if any(any(s <= t < e for s, e in spans) for t in touched) or kinds in ('torn-prefix', 'lost-writes', 'truncate', 'random-bytes', 'seek-end'):
                            nontrivial += 1
                        h.update(repr((label, res[0], type(res[1]).__name__ if res[1] is not None else None)).encode())
                        if measure_mem:
                            ctx.probes['memory_measured'] += 1
                        if res[0] == 'ok':
                            ctx.probes['open_succeeded'] += 1
                        elif res[0] == 'budget':
                            ctx.violate(('not-prompt', 'steps', phase_of(res[1])), '%s: more than %d interpreter events (valid parent: %d)' % (label, step_limit, base_steps))
                        else:
                            e = res[1]
                            if isinstance(e, d.pexc.PyCdlibException):
                                ctx.probes['open_refused_documented'] += 1
                            else:
                                ctx.violate(('undocumented-exception', type(e).__name__, innermost(e)), '%s: %r' % (label, e))
                        if requested > 64 * max(len(dmg), 2048) + 16 * 1024 * 1024:
                            ctx.violate(('not-prompt', 'bytes-requested', res[0] if res[0] != 'exc' else type(res[1]).__name__), '%s: %d bytes requested from a %d byte image' % (label, requested, len(dmg)))
                        if peak is not None and peak > 64 * max(len(dmg), 2048) + 64 * 1024 * 1024:
                            ctx.violate(('memory', kinds), '%s: traced peak %d bytes for a %d byte image' % (label, peak, len(dmg)))
        finally:
            d.close()
    return {'status': ctx.status, 'violations': ctx.violations, 'stats': dict(ctx.stats), 'probes': dict(ctx.probes),
            'fingerprint': hashlib.blake2b(repr(sorted(triples)).encode(), digest_size=8).hexdigest(),
            'digest': h.hexdigest() + ':' + ctx.status, 'nontrivial': nontrivial >= 1, 'sim_seconds': 0.0, 'note': ctx.note,
            'triples': sorted(triples)[:40]}


def sample_of(plan):
    return {'cfg': plan['cfg'], 'ops': plan['ops'][:6], 'faults': (plan.get('faults') or [])[:6]}
