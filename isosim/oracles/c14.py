"""C14 - failure atomicity: a refused edit changes nothing.

Fault enumeration over a sampled history space: at a seeded position k of an
accepted history H the injector issues doomed calls from a catalogue computed
against the model (every mutating API x every refusal cause it can reach,
including I/O faults out of the file objects).  Twin replays under a frozen
clock and one entropy stream decide:
   bytes(write(H[:k] + doomed)) == bytes(write(H[:k]))
   bytes(write(H[:k] + doomed + H[k:])) == bytes(write(H))
with both writes succeeding and the later edits behaving as in H."""
import hashlib
import json
from collections import Counter

from .. import hist as H
from .. import gen as G
from .. import model as M
from .. import world as W
from .. import doomed as DM
from ..disk import SimDisk, SimFile
from ..driver import Driver, Outcome
from . import c05

PROP = 'C14'
LEVEL = 'fault_enumeration'
RULE = ('a seeded edit history H (3-16 edits, optionally with a restart so that the doomed call hits parsed state) and a position k; the doomed '
        'calls applicable at k are drawn from isosim/doomed.py (bad or duplicate name in the 1st/2nd/3rd namespace of add_fp/add_directory/'
        'add_hard_link/add_symlink, missing or non-directory parent, wrong entry type or non-empty directory for rm_*, El Torito-referenced files, '
        'extension arguments on an image without the extension, invalid boot/hybrid parameters, second new(), OSError out of the boot file during '
        'add_eltorito(boot_info_table), EIO/ENOSPC out of the output disk and an exception out of progress_cb during write_fp): quick samples 2 '
        'per plan, thorough enumerates every applicable generator; a doomed call that does not raise is not judged; non-trivial: >= 3 accepted edits '
        'and >= 1 doomed call that raised and was compared; distinct = (model shape, cause categories)')
BUDGET = {'quick': 40, 'thorough': 900}
PROBES = ['doomed_raised_and_compared', 'doomed_not_raised', 'doomed_on_parsed_state', 'multi_namespace_partial', 'io_fault_fired', 'later_edits_replayed',
          'category:duplicate', 'category:name-rule', 'category:missing-parent', 'category:wrong-type', 'category:boot-parameters', 'category:io-fault',
          'category:object-state', 'category:extension-absent', 'category:hybrid-parameters', 'category:eltorito-referenced', 'category:depth']
ASSUMPTIONS = ['replays rather than snapshots keep the verdict independent of C06', 'a doomed call that unexpectedly succeeds is C13\'s business, not judged here']
SHRINK_LIST_KEYS = ['ops', 'doomed']
CHUNK = 8

PROFILE = H.Profile('c14', nops=(3, 16), final_restart=False,
                    weights={'restart': 3, 'add_boot_file': 3, 'add_eltorito': 4, 'add_isohybrid': 1, 'dup_pvd': 0, 'rm_file': 6, 'rm_dir': 4,
                             'mass_dirs': 0.3, 'mass_files': 0.3, 'chain_dirs': 2.5})


def generate(seed, tier='quick'):
    plan = H.generate(seed, PROFILE)
    w = W.World(seed)
    r = w.rng('c14')
    t = plan['env']['clock0']
    for op in plan['ops']:
        t += max(0.0, op.get('dt', 0.0))
        op['t'] = t
    plan['t_final'] = t + 1.0
    plan['env']['clock_mode'] = 'frozen'
    ops = plan['ops']
    k = r.randint(0, len(ops))
    model = M.Model(plan['cfg'])
    for op in ops[:k]:
        model.apply(op)
    g = G.OpGen(w.rng('c14.ops'), w.rng('c14.args'), model)
    g.next_blob = 600000
    dg = DM.DoomedGen(g)
    if tier == 'thorough':
        dl = dg.all_applicable()
    else:
        dl = []
        for _ in range(2):
            d = dg.any()
            if d is not None:
                dl.append(d)
    plan['k'] = k
    plan['doomed'] = dl
    return plan


def replay(ctx, plan, ops, label, doomed_at=None, doomed=None):
    """Run ops (with an optional doomed call before index doomed_at) on a fresh object; returns dict."""
    w = ctx.world
    # every replica starts every entropy stream from its beginning - also the per-generation streams that a restart
    # inside the history switches to (a cached stream would go on where the previous replica left it, and a random
    # MBR id drawn after a restart would differ between the replicas)
    for name in [n for n in w._rngs if n.startswith('entropy.')]:
        del w._rngs[name]
    w.reset_entropy('c14')
    w.generation = 0
    d = Driver(w, plan['cfg'])
    d.blocksize = plan.get('blocksize', 32768)
    res = {'refused_edit': None, 'doomed_out': None, 'image': None, 'write_exc': None}
    try:
        w.clock.now = plan['env']['clock0']
        early = doomed is not None and doomed['op'] == 'bad_new'
        at_restart = doomed is not None and doomed['op'] == 'bad_open'
        restart_idx = max([i_ for i_, o in enumerate(ops) if o['op'] == 'restart'] or [-1])
        if at_restart and restart_idx < 0:
            res['doomed_out'] = 'not-applicable'
            doomed = None
            at_restart = False
        try:
            d.new(refused_first=doomed['kw'] if early else None)
        except Exception as e:   # the real new() after a refused one
            res['doomed_out'] = getattr(d, 'refused_new', None)
            res['refused_edit'] = (-1, {'op': 'new'}, Outcome(False, e))
            return res
        if early:
            res['doomed_out'] = d.refused_new
        for i, op in enumerate(list(ops) + [None]):
            if doomed is not None and not early and not at_restart and i == doomed_at:
                plain = {k: v for k, v in doomed.items() if k not in ('expect', 'cause', 'valid_otherwise', 'category')}
                ok_to_apply = M.valid(d.model, plain) if doomed.get('valid_otherwise') else not M.valid(d.model, plain)
                if not ok_to_apply:
                    res['doomed_out'] = 'not-applicable'
                else:
                    out = d.apply_doomed(doomed)
                    res['doomed_out'] = out
                    res['fault_fired'] = getattr(d, 'fault_fired', None)
            if op is None:
                break
            if not M.valid(d.model, op):
                continue
            w.clock.now = op.get('t', w.clock.now)
            if op['op'] == 'restart':
                try:
                    if at_restart and i == restart_idx and res['doomed_out'] is None:
                        d.refused_open = None
                        d.restart(via='fp', refused_first=doomed)
                        res['doomed_out'] = d.refused_open if d.refused_open is not None else 'not-applicable'
                    else:
                        d.restart(via=('reuse-decoy' if op.get('reuse') == 'decoy' else 'reuse') if op.get('reuse') else 'fp')
                    d.model.apply(op)
                except Exception as e:
                    if at_restart and res['doomed_out'] is None and getattr(d, 'refused_open', None) is not None:
                        res['doomed_out'] = d.refused_open      # the damaged image was refused; the real one then was, too
                    res['refused_edit'] = (i, op, Outcome(False, e))
                    return res
                continue
            out = d.apply(op)
            if not out.ok:
                res['refused_edit'] = (i, op, out)
                return res
        w.clock.now = plan.get('t_final', w.clock.now)
        disk = SimDisk(label)
        try:
            d.iso.write_fp(SimFile(disk, 'wb'), d.blocksize)
            res['image'] = bytes(disk.data)
            res['model'] = d.model
        except Exception as e:
            res['write_exc'] = Outcome(False, e)
        return res
    finally:
        d.close()


class _Ctx:
    def __init__(self, plan, world):
        self.plan = plan
        self.world = world
        self.violations = []
        self.stats = Counter()
        self.probes = Counter()
        self.status = 'ok'
        self.note = None

    def violate(self, sig, detail='', fatal=True):
        sig = [str(s) for s in sig]
        if any(v['sig'] == sig for v in self.violations):
            return
        self.violations.append({'sig': sig, 'detail': str(detail)[:2000]})
        self.status = 'violation'


def cause_stem(cause):
    return cause.split(':namespace-')[0]


def execute(plan):
    env = plan['env']
    w = W.World(plan['seed'], tz=env['tz'], clock0=env['clock0'], clock_mode='frozen', cache=env['cache'], max_extent=env.get('max_extent'))
    ctx = _Ctx(plan, w)
    ops = plan['ops']
    k = min(plan.get('k', 0), len(ops))
    compared = 0
    h = hashlib.blake2b(digest_size=16)
    with w:
        base_prefix = replay(ctx, plan, ops[:k], 'A')
        base_full = replay(ctx, plan, ops, 'C')
        if base_prefix['image'] is None or base_full['image'] is None:
            ctx.status = 'inconclusive'
            why = base_full['refused_edit'] or base_prefix['refused_edit']
            ctx.note = 'base history not accepted/written: %s' % (why[2].sig() if why else (base_full['write_exc'] or base_prefix['write_exc']).sig(),)
            ctx.stats['inconclusive:base'] += 1
        else:
            h.update(hashlib.blake2b(base_full['image'], digest_size=16).digest())
            for dm in plan.get('doomed') or []:
                cause = dm['cause']
                cat = dm.get('category', '?')
                b = replay(ctx, plan, ops[:k], 'B', doomed_at=k, doomed=dm)
                out = b['doomed_out']
                if out == 'not-applicable' or out is None:
                    ctx.stats['doomed_not_applicable'] += 1
                    continue
                if out.ok:
                    ctx.probes['doomed_not_raised'] += 1
                    ctx.stats['doomed_not_raised:' + cat] += 1
                    continue
                ctx.probes['category:' + cat.split('-in-namespace')[0].replace('duplicate', 'duplicate').replace('missing-parent', 'missing-parent')
                           if cat.split('-in-namespace')[0] in ('duplicate', 'missing-parent', 'parent-is-a-file') else 'category:' + ('name-rule' if cat in ('iso-file-name', 'iso-dir-name', 'name-rule', 'name-rule-in-2nd-namespace', 'joliet-name-longer-than-64') else cat)] += 1
                if 'namespace-2' in cause or 'namespace-3' in cause or '2nd-namespace' in cat:
                    ctx.probes['multi_namespace_partial'] += 1
                if dm.get('fault') and b.get('fault_fired'):
                    ctx.probes['io_fault_fired'] += 1
                if any(o['op'] == 'restart' for o in ops[:k]):
                    ctx.probes['doomed_on_parsed_state'] += 1
                h.update(repr((cause, out.etype)).encode())
                tag = (cause_stem(cause),)
                xd = ' [category %s, the call raised %s]' % (cat, out.etype)
                # (1) a write right after the refused call
                if b['refused_edit'] is not None:
                    i_, op_, o2 = b['refused_edit']
                    ctx.violate(('later-edit-behaves-differently',) + tag, 'edit %d (%s) raises %s in %s after the doomed call: %s' % (i_, op_['op'], o2.etype, o2.where, o2.msg) + xd, fatal=False)
                    continue
                if b['image'] is None:
                    o2 = b['write_exc']
                    ctx.violate(('write-after-refusal-fails',) + tag, 'after the refused call write_fp raised %s in %s: %s' % (o2.etype, o2.where, o2.msg) + xd, fatal=False)
                else:
                    compared += 1
                    ctx.probes['doomed_raised_and_compared'] += 1
                    if b['image'] != base_prefix['image']:
                        ctx.violate(('not-atomic',) + tag, 'write right after the refused call differs in %r: ' % (diff_class(base_prefix, b),) + diff_detail(base_prefix['image'], b['image']) + xd, fatal=False)
                # (2) the rest of the history after the refused call
                e = replay(ctx, plan, ops, 'E', doomed_at=k, doomed=dm)
                ctx.probes['later_edits_replayed'] += 1
                if e['refused_edit'] is not None:
                    i, op, o2 = e['refused_edit']
                    ctx.violate(('later-edit-behaves-differently',) + tag, 'edit %d (%s) accepted in H raises %s in %s after the doomed call: %s' % (i, op['op'], o2.etype, o2.where, o2.msg) + xd, fatal=False)
                elif e['image'] is None:
                    o2 = e['write_exc']
                    ctx.violate(('write-after-refusal-fails',) + tag, 'write_fp at the end of H raised %s in %s: %s' % (o2.etype, o2.where, o2.msg) + xd, fatal=False)
                elif e['image'] != base_full['image']:
                    ctx.violate(('not-atomic',) + tag, 'image at the end of H differs in %r: ' % (diff_class(base_full, e),) + diff_detail(base_full['image'], e['image']) + xd, fatal=False)
    m = M.Model(plan['cfg'])
    for op in ops:
        if M.valid(m, op):
            m.apply(op)
    cats = sorted(d.get('category', '?') for d in plan.get('doomed') or [])
    return {
        'status': ctx.status, 'violations': ctx.violations, 'stats': dict(ctx.stats), 'probes': dict(ctx.probes),
        'fingerprint': hashlib.blake2b((repr(m.shape()) + repr(cats) + str(k)).encode(), digest_size=8).hexdigest(),
        'digest': h.hexdigest() + ':' + ctx.status + ':' + str(len(ctx.violations)),
        'nontrivial': len([o for o in ops if o['op'] != 'restart']) >= 3 and compared >= 1,
        'sim_seconds': plan.get('t_final', 0) - env['clock0'], 'note': ctx.note,
    }


def diff_class(a, b):
    ia, ib = a['image'], b['image']
    off = c05.first_diff(ia, ib, [])
    if off is None:
        return ('same',)
    if len(ia) != len(ib) and off >= min(len(ia), len(ib)):
        return ('length', 'longer' if len(ib) > len(ia) else 'shorter')
    return c05.classify(ia, off, a.get('model'))


def diff_detail(ia, ib):
    off = c05.first_diff(ia, ib, [])
    if off is None:
        return 'identical'
    return 'lengths %d vs %d; first difference at byte %d (sector %d +%d): %s vs %s' % (len(ia), len(ib), off, off // 2048, off % 2048,
                                                                                      ia[off:off + 8].hex(), ib[off:off + 8].hex())


def simplifications(plan):
    if plan.get('k', 0) > len(plan['ops']):
        p2 = json.loads(json.dumps(plan))
        p2['k'] = len(plan['ops'])
        yield p2
    if plan['env'].get('cache') != 256:
        p2 = json.loads(json.dumps(plan))
        p2['env']['cache'] = 256
        yield p2


def fixup_plan(plan):
    """Keep k pointing at the same place when ops before it are dropped (ddmin hands in the shortened list)."""
    return plan


def sample_of(plan):
    return {'cfg': plan['cfg'], 'env': plan['env'], 'k': plan.get('k'), 'ops': plan['ops'][:10], 'doomed': plan.get('doomed')}
