"""C12 - hybrid (MBR/GPT/APM) boot data is consistent with the image it describes."""
import struct

from .. import hist as H
from .. import gen as G
from .. import dec_iso, dec_boot, decview
from .. import observe as O
from ..driver import blob_data

PROP = 'C12'
LEVEL = 'exploration'
RULE = ('HIST histories that build an isolinux-signed initial boot entry (plus EFI sections of different sizes), then add_isohybrid over '
        'geometry 1-63 x 1-256, partition entry 1-4, offsets, types, mbr id given/absent (entropy seam), efi/mac, image sizes giving cylinder '
        'counts below and above 1024, edits that move the boot files afterwards, both consistency modes; every written hybrid image is read by '
        'isosim/dec_boot.py; non-trivial: >= 3 accepted edits, >= 1 write with a hybrid system area decoded; distinct = model shape fingerprints')
BUDGET = {'quick': 40, 'thorough': 900}
PROBES = ['hybrid_decoded', 'cylinders_gt_1024', 'gpt_decoded', 'apm_decoded', 'mbr_id_random', 'boot_file_moved_after_add', 'efi_two_sections']
ASSUMPTIONS = ['isosim/dec_boot.py implements MBR/GPT (UEFI 2.x section 5)/APM layouts as summarised in DESIGN.md Appendix A; own CRC32']


def post_gen(plan, w, model):
    pass


PROFILE = H.Profile('c12', nops=(5, 22),
                    weights={'add_boot_file': 16, 'add_eltorito': 24, 'add_isohybrid': 22, 'hybrid_setup': 6, 'rm_isohybrid': 1, 'rm_eltorito': 1, 'add_fp': 10,
                             'add_dir': 5, 'rm_file': 4, 'rm_link': 2, 'add_link': 2, 'dup_pvd': 0, 'add_symlink': 1, 'hide': 1, 'restart': 4},
                    sizes=(0, 1, 100, 2047, 2048, 2049, 6144, 20480, 65535, 300000))


def check_image(ctx, data):
    m = ctx.model
    if not m.hybrid or not m.eltorito:
        return
    hy = dec_boot.Hybrid(data).decode()
    if not hy.present:
        ctx.violate(('mbr/missing',), 'model has isohybrid, system area has no MBR signature')
        return
    ctx.probes['hybrid_decoded'] += 1
    for a in hy.anoms:
        ctx.violate((a.rule,), repr(a), fatal=False)
    h = m.hybrid
    heads = h.get('heads') or 64
    secs = h.get('sectors') or 32
    slot = h.get('part_entry') or 1
    offset = h.get('part_offset') or 0
    efi = bool(h.get('efi')) or bool(h.get('mac'))
    mac = bool(h.get('mac'))
    ptype = h.get('part_type')
    if ptype is None:
        ptype = 0 if (mac or efi) else 0x17
    cylsize = heads * secs * 512
    if len(data) % cylsize:
        ctx.violate(('hybrid/image-not-whole-cylinders', 'reopened' if m.hybrid.get('_gen', 0) < m.generation else 'fresh',
                     'part_offset>0' if offset else 'part_offset=0'), 'len=%d cylinder=%d' % (len(data), cylsize), fatal=False)
    cyls = len(data) // cylsize
    big = cyls > 1024
    if big:
        ctx.probes['cylinders_gt_1024'] += 1
    img = dec_iso.decode(data, want_trees=False)
    if not img.pvds:
        ctx.violate(('hybrid/iso-part-undecodable',), 'no PVD')
        return
    iso_size = img.pvds[0].space_size * 2048
    # the padding is less than one cylinder, plus (EFI) whole cylinders that make room for the backup GPT
    if not (iso_size <= len(data) < iso_size + cylsize + ((16896 + cylsize) if efi else 0)):
        ctx.violate(('hybrid/padding-size', 'reopened' if m.hybrid.get('_gen', 0) < m.generation else 'fresh'), 'iso=%d image=%d cylinder=%d' % (iso_size, len(data), cylsize), fatal=False)
    # "... and is otherwise an unchanged, valid ISO": the ISO9660/Joliet trees and every file's bytes are intact
    full = dec_iso.decode(data)
    hard = [a for a in full.anoms if not a.rule.startswith('ecma119.9.3/order') and not a.rule.startswith('ecma119.6.7.1/duplicate-pvd')]
    tag = ('efi=%s' % efi, 'cylinder<16896' if cylsize < 16896 else 'cylinder>=16896')
    if hard:
        ctx.violate(('hybrid/iso-structure-damaged',) + tag + (hard[0].rule,), repr(hard[0]), fatal=False)
    else:
        mm = decview.compare_with_model(full, data, m, ('iso', 'joliet'))
        if mm:
            ctx.violate(('hybrid/iso-content-damaged',) + tag + O.mismatch_sig(mm[0]), 'path=%r expected=%r decoded=%r' % (mm[0][2], mm[0][3], mm[0][4]), fatal=False)
    active = [p for p in hy.parts if p['status'] == 0x80]
    if len(active) != 1:
        ctx.violate(('mbr/active-partitions', str(len(active)), 'slot=%d efi=%s mac=%s' % (slot, efi, mac)), repr([(p['slot'], p['status']) for p in hy.parts]), fatal=False)
    else:
        p = active[0]
        if p['slot'] != slot:
            ctx.violate(('mbr/active-slot',), 'slot %d want %d' % (p['slot'], slot), fatal=False)
        if p['type'] != ptype:
            ctx.violate(('mbr/partition-type',), '%#x want %#x' % (p['type'], ptype), fatal=False)
        if p['lba'] != offset:
            ctx.violate(('mbr/partition-start',), '%d want %d' % (p['lba'], offset), fatal=False)
        if p['lba'] + p['count'] != len(data) // 512:
            ctx.violate(('mbr/partition-does-not-cover-image', 'cyl>1024' if big else 'cyl<=1024', 'reopened' if m.hybrid.get('_gen', 0) < m.generation else 'fresh'),
                        'start %d count %d image %d sectors' % (p['lba'], p['count'], len(data) // 512), fatal=False)
        ec, eh, es = p['end_chs']
        want_end = (min(cyls, 1024) - 1, heads - 1, secs)
        if (ec, eh, es) != want_end:
            ctx.violate(('mbr/end-chs', 'cyl>1024' if big else 'cyl<=1024', 'reopened' if m.hybrid.get('_gen', 0) < m.generation else 'fresh',
                         'part_offset>0' if offset else 'part_offset=0'), 'got %r want %r' % ((ec, eh, es), want_end), fatal=False)
        sc, sh, ss = p['start_chs']
        want_start = (offset // (heads * secs), (offset // secs) % heads, offset % secs + 1)
        if want_start[0] > 1023:
            ctx.probes['start_cylinder_beyond_chs'] += 1      # not encodable in 10 bits; no convention is demanded
        elif (sc, sh, ss) != want_start:
            if want_start[0] > 255:
                ctx.probes['start_cylinder_needs_high_bits'] += 1
            ctx.violate(('mbr/start-chs',), 'got %r want %r' % ((sc, sh, ss), want_start), fatal=False)
    if h.get('mbr_id') is not None:
        if hy.mbr['disk_id'] != h['mbr_id']:
            ctx.violate(('mbr/disk-id',), '%#x want %#x' % (hy.mbr['disk_id'], h['mbr_id']), fatal=False)
    else:
        ctx.probes['mbr_id_random'] += 1
    # boot-file address = 4 x the boot file's sector (stripe-checked)
    b0 = m.blobs.get(m.eltorito['entries'][0]['blob'])
    addr = hy.mbr['boot_lba_512']
    if b0 is not None:
        want = blob_data(b0)
        if addr % 4 or data[addr * 512:addr * 512 + min(8, len(want))] != want[:8]:
            nx86 = 1 + sum(1 for e in m.eltorito['entries'][1:] if not e.get('efi'))
            ctx.violate(('mbr/boot-file-address', 'validation-platform=%d' % (m.eltorito.get('platform') or 0),
                         'entries-with-validation-platform=%s' % ('1' if nx86 == 1 else '>1'), 'udf=%s' % bool(m.has('udf'))), 'offset 432 holds %d (512-byte sectors); the boot file does not start there' % addr, fatal=False)
    # GPT
    if efi:
        if hy.gpt is None:
            ctx.violate(('gpt/primary.missing',), 'efi requested, no GPT header at LBA 1', fatal=False)
        else:
            ctx.probes['gpt_decoded'] += 1
            g, gb = hy.gpt, hy.gpt_backup
            if gb is not None:
                if (g['cur'], g['other']) != (gb['other'], gb['cur']):
                    ctx.violate(('gpt/backup.lbas-not-mirrored',), 'primary cur/other %d/%d backup %d/%d' % (g['cur'], g['other'], gb['cur'], gb['other']), fatal=False)
                if g['guid'] != gb['guid']:
                    ctx.violate(('gpt/backup.disk-guid',), '%s vs %s' % (g['guid'].hex(), gb['guid'].hex()), fatal=False)
                if (g['first'], g['last']) != (gb['first'], gb['last']):
                    ctx.violate(('gpt/backup.usable-range',), '%r vs %r' % ((g['first'], g['last']), (gb['first'], gb['last'])), fatal=False)
                if g.get('array') is not None and gb.get('array') is not None and g['array'] != gb['array']:
                    k = next(i for i in range(min(len(g['array']), len(gb['array']))) if g['array'][i] != gb['array'][i]) if len(g['array']) == len(gb['array']) else -1
                    field = 'length' if k < 0 else ('type-guid', 'unique-guid', 'first-lba', 'last-lba', 'attributes', 'name')[
                        0 if k % 128 < 16 else 1 if k % 128 < 32 else 2 if k % 128 < 40 else 3 if k % 128 < 48 else 4 if k % 128 < 56 else 5]
                    ctx.violate(('gpt/backup.entry-array-differs', field), 'first difference at byte %d' % k, fatal=False)
                if gb['cur'] != len(data) // 512 - 1:
                    ctx.violate(('gpt/backup.not-at-last-lba',), str(gb['cur']), fatal=False)
            if g['last'] >= len(data) // 512:
                ctx.violate(('gpt/primary.last-usable-beyond-disk',), 'last usable %d, disk has %d sectors' % (g['last'], len(data) // 512), fatal=False)
            ents = g['entries']
            vplat = m.eltorito.get('platform') or 0
            # El Torito images whose (effective) platform id is 0xEF: sections added with efi=True, and every
            # entry that inherits a validation platform of 0xEF
            efi_ents = [(i, e) for i, e in enumerate(m.eltorito['entries']) if (e.get('efi') and i > 0) or vplat == 0xef]
            if len(efi_ents) >= 2:
                ctx.probes['efi_two_sections'] += 1
            if ents:
                e0 = ents[0]
                if e0['first'] != 0 or e0['last'] != iso_size // 512 - 1:
                    ctx.violate(('gpt/entry.iso-span', 'reopened' if m.hybrid.get('_gen', 0) < m.generation else 'fresh'), 'first %d last %d iso %d sectors' % (e0['first'], e0['last'], iso_size // 512), fatal=False)
            # partitions delimit exactly the sectors of the corresponding El Torito image(s)
            from .. import dec_boot as DB
            et = DB.ElTorito(data).decode([(v.sector, v.raw) for v in img.boots])
            spans = []
            for i, me in efi_ents:
                if i < len(et.entries):
                    ce = et.entries[i]
                    spans.append((ce['rba'] * 4, ce['rba'] * 4 + ce['sector_count'] - 1))
            got = [(e['first'], e['last']) for e in ents[1:]]
            if spans and got:
                if got[0] not in spans:
                    ctx.violate(('gpt/entry.efi-span',), 'GPT EFI partition %r; El Torito EFI images at %r' % (got[0], spans), fatal=False)
            mbr2 = hy.parts[1]
            if spans and mbr2['raw'][:8] == b'\x00\xfe\xff\xff\xef\xfe\xff\xff':
                if (mbr2['lba'], mbr2['lba'] + mbr2['count'] - 1) not in spans:
                    ctx.violate(('mbr/efi-partition-span',), 'MBR EFI partition (%d,+%d); El Torito EFI images at %r' % (mbr2['lba'], mbr2['count'], spans), fatal=False)
    if mac:
        if not hy.apm:
            ctx.violate(('apm/missing',), 'mac requested, no PM entries', fatal=False)
        else:
            ctx.probes['apm_decoded'] += 1
            n = len(hy.apm)
            for a in hy.apm:
                if a['map_count'] != n:
                    ctx.violate(('apm/map-count',), 'entry says %d, %d entries present' % (a['map_count'], n), fatal=False)
                    break
            for a in hy.apm:
                if a['type'] not in (b'Apple_partition_map',) and (a['start'] == 0 or a['count'] == 0):
                    ctx.violate(('apm/empty-partition-span',), '%r start %d count %d' % (a['type'], a['start'], a['count']), fatal=False)
                    break


class C12(H.Oracle):
    prop = PROP

    def on_edit(self, ctx, op, out):
        if ctx.model.hybrid and op['op'] in ('add_fp', 'rm_file', 'add_dir', 'rm_link'):
            ctx.probes['boot_file_moved_after_add'] += 1

    def on_write(self, ctx, disk, wf):
        check_image(ctx, bytes(disk.data))


def generate(seed, tier='quick'):
    return H.generate(seed, PROFILE)


def execute(plan):
    r = H.execute(plan, C12())
    r['nontrivial'] = r['nontrivial'] and bool(r['probes'].get('hybrid_decoded'))
    return r


def sample_of(plan):
    return {'cfg': plan['cfg'], 'env': plan['env'], 'ops': plan['ops'][:12]}
