"""C16 - reading files: exact bytes, stream semantics, no interference.

Exploration over interleavings, checked against a sequential model: 1-4
reader clients hold PyCdlibIO streams (raw or wrapped in io.BufferedReader) on
files of one PyCdlib object - files on the original image and files added but
not yet written, hard-linked names of one blob, the same file twice - and run
scripts of read/readall/readinto/seek/tell; noise clients extract files with
assorted block sizes, step parked walk/list_children generators, query
records and master to a scratch disk.  A seeded scheduler interleaves the
steps (one API call is the atomic unit: the library makes no thread-safety
claim and the property quantifies over interleavings of calls).  Every
reader's observations must equal those of the same script on
io.BytesIO(content)."""
import hashlib
import io
import json
from collections import Counter

from .. import hist as H
from .. import gen as G
from .. import model as M
from .. import world as W
from ..disk import SimDisk, SimFile
from ..driver import Driver, Outcome, blob_data

PROP = 'C16'
LEVEL = 'exploration'
RULE = ('a short seeded history builds an image (optionally written and reopened so that files live on the original image; files added afterwards '
        'are pending; in 15% of level-3/4 runs files are split into several extents through the guarded threshold hook; in half of the runs all '
        'streams are opened first, an extraction happens, and only then are they entered); then 1-4 reader clients and 0-3 noise clients run scripts that a seeded scheduler interleaves call by call; each reader '
        'observation (returned bytes, counts, positions) is compared with io.BytesIO(content) executing the same script, every whole-file '
        'extraction with its content; single-client configurations run separately (30% of runs) so that interference findings do not mask plain '
        'stream bugs; non-trivial: >= 2 clients touching the shared file object between two reads of one stream, or (single client) >= 4 stream '
        'operations; distinct = distinct interleaving digests')
BUDGET = {'quick': 40, 'thorough': 900}
PROBES = ['reader_steps', 'noise_steps', 'interleaved_between_reads', 'single_client_runs', 'buffered_reader', 'pending_file_stream', 'on_image_stream',
          'same_blob_two_streams', 'streams_entered_late', 'extract_checked', 'seek_beyond_end', 'readinto_steps', 'scratch_write_between_reads', 'boot_info_table_file']
ASSUMPTIONS = ['a seek that would land before the start of the stream is an invalid argument (BytesIO clamps for whence 1/2, PyCdlibIO raises): not generated',
               'the boot-info-table window (bytes 8..63) of a boot file that was not mastered yet is compared modulo the table']
SHRINK_LIST_KEYS = ['schedule', 'ops']
CHUNK = 10

PROFILE = H.Profile('c16', nops=(2, 10), final_restart=False,
                    weights={'add_fp': 40, 'add_dir': 6, 'add_link': 12, 'rm_file': 2, 'rm_link': 2, 'restart': 0, 'dup_pvd': 0, 'add_isohybrid': 0,
                             'add_eltorito': 5, 'add_symlink': 1, 'hide': 1, 'mass_dirs': 0.2, 'mass_files': 0.5},
                    sizes=(1, 7, 9, 20, 40, 63, 64, 100, 2047, 2048, 2049, 4096, 4097, 6143, 10000, 20480, 65535))

PROFILE.multi_extent_rate = 0.15        # streams over files of several extents (guarded threshold hook); UDF names of such files
PROFILE.multi_extent_no_udf = True      # are C01's known finding, so these runs carry no UDF

KW = {'iso': 'iso_path', 'joliet': 'joliet_path', 'udf': 'udf_path', 'rr': 'rr_path'}


def reader_script(r, length, n):
    out = []
    pos_hint = 0
    for _ in range(n):
        k = r.random()
        if k < 0.4:
            out.append(['read', r.choice((0, 1, 7, 64, 100, 2047, 2048, 2049, 4096, 10000, length, length + 5, max(1, length // 2)))])
        elif k < 0.48:
            out.append(['read', r.choice((-1, None))])
        elif k < 0.55:
            out.append(['readall'])
        elif k < 0.7:
            out.append(['readinto', r.choice((1, 16, 100, 2048, 5000, max(1, length // 3)))])
        elif k < 0.92:
            wh = r.choice((0, 0, 1, 2))
            if wh == 0:
                off = r.choice((0, 1, length - 1, length, length + 10, r.randint(0, max(0, length)), max(0, length // 2)))
                off = max(0, off)
            elif wh == 1:
                off = r.choice((0, 1, 5, 100, 2048))          # forward only: never before the start
            else:
                off = -r.choice((0, 1, min(length, 10), min(length, 2048), length))
            out.append(['seek', off, wh])
        else:
            out.append(['tell'])
    return out


def generate(seed, tier='quick'):
    plan = H.generate(seed, PROFILE)
    w = W.World(seed)
    r = w.rng('c16')
    model = M.Model(plan['cfg'])
    for op in plan['ops']:
        model.apply(op)
    plan['restart_at'] = r.choice((None, len(plan['ops']), len(plan['ops']) // 2))
    # after the restart point the remaining ops are "added but not yet written"
    files = []
    for ns in ('iso', 'joliet', 'udf', 'rr'):
        src = 'iso' if ns == 'rr' else ns
        if not model.has(ns):
            continue
        for p, n in model.iter_ns(src):
            if n.kind == 'file' and isinstance(n.blob, int) and not n.noinode and model.blobs[n.blob].length > 0:
                path = p
                if ns == 'rr':
                    path = model_rr_path(model, p)
                    if path is None:
                        continue
                files.append((ns, path, n.blob))
    plan['clients'] = []
    plan['schedule'] = []
    plan['late_enter'] = r.choice((None, None, 'in-order', 'reversed'))
    plan['restart_via'] = r.choice(('fp', 'fp', 'reuse', 'reuse-decoy'))
    if not files:
        return plan
    single = r.random() < 0.3
    nread = 1 if single else r.randint(1, 4)
    nnoise = 0 if single else r.randint(0, 3)
    for i in range(nread):
        if i > 0 and r.random() < 0.35:
            ns, path, bid = r.choice([f for f in files if f[2] == plan['clients'][0]['blob']])   # another name (or the same) of one blob
        else:
            ns, path, bid = r.choice(files)
        plan['clients'].append({'kind': 'reader', 'ns': ns, 'path': path, 'blob': bid, 'buffered': r.random() < 0.3,
                                'script': reader_script(r, model.blobs[bid].length, r.randint(3, 12))})
    for i in range(nnoise):
        script = []
        for _ in range(r.randint(2, 8)):
            k = r.choice(('extract', 'extract', 'get_record', 'walk', 'list', 'write_scratch', 'open_close'))
            if k in ('extract', 'get_record', 'open_close'):
                ns, path, bid = r.choice(files)
                script.append([k, ns, path, bid, r.choice((1, 7, 512, 2048, 8192, 1 << 20))])
            elif k in ('walk', 'list'):
                ns = r.choice([n for n in ('iso', 'joliet', 'udf') if model.has(n)])
                script.append([k, ns, r.choice((1, 2, 5))])
            else:
                script.append([k])
        plan['clients'].append({'kind': 'noise', 'script': script})
    steps = []
    for ci, c in enumerate(plan['clients']):
        steps += [ci] * len(c['script'])
    r.shuffle(steps)
    plan['schedule'] = steps
    return plan


def model_rr_path(m, iso_path):
    node = m.roots['iso']
    out = ''
    for c in iso_path.split('/')[1:]:
        node = node.children.get(c)
        if node is None or node.rr is None:
            return None
        out += '/' + node.rr
    return out


class _Ctx:
    def __init__(self):
        self.violations = []
        self.stats = Counter()
        self.probes = Counter()
        self.status = 'ok'
        self.note = None

    def violate(self, sig, detail=''):
        sig = [str(s) for s in sig]
        if any(v['sig'] == sig for v in self.violations):
            return
        self.violations.append({'sig': sig, 'detail': str(detail)[:1500]})
        self.status = 'violation'


def same(a, b, masked):
    if a == b:
        return True
    return False


def execute(plan):
    env = plan['env']
    w = W.World(plan['seed'], tz=env['tz'], clock0=env['clock0'], clock_mode=env['clock_mode'], cache=env['cache'], max_extent=env.get('max_extent'))
    ctx = _Ctx()
    h = hashlib.blake2b(digest_size=16)
    interleaved = 0
    with w:
        d = Driver(w, plan['cfg'])
        d.blocksize = plan.get('blocksize', 32768)
        try:
            d.new()
            ra = plan.get('restart_at')
            ok = True
            for i, op in enumerate(plan['ops'] + [None]):
                if ra is not None and i == ra:
                    try:
                        d.restart(plan.get('restart_via', 'fp'))
                        d.model.apply({'op': 'restart'})
                    except Exception as e:
                        ctx.status = 'inconclusive'
                        ctx.note = 'setup restart failed: %r' % (e,)
                        ok = False
                        break
                if op is None or op['op'] == 'restart':
                    continue
                if not M.valid(d.model, op):
                    continue
                if not d.apply(op).ok:
                    ctx.status = 'inconclusive'
                    ctx.note = 'setup edit refused'
                    ok = False
                    break
            if ok:
                interleaved = run_clients(ctx, plan, d, h)
        finally:
            d.close()
    nread = sum(len(c['script']) for c in plan.get('clients') or [] if c['kind'] == 'reader')
    nclients = len(plan.get('clients') or [])
    return {'status': ctx.status, 'violations': ctx.violations, 'stats': dict(ctx.stats), 'probes': dict(ctx.probes),
            'fingerprint': hashlib.blake2b(json.dumps([plan.get('schedule'), [c.get('script') for c in plan.get('clients') or []]], sort_keys=True).encode(), digest_size=8).hexdigest(),
            'digest': h.hexdigest() + ':' + ctx.status, 'nontrivial': (interleaved >= 1) or (nclients == 1 and nread >= 4),
            'sim_seconds': 0.0, 'note': ctx.note}


def run_clients(ctx, plan, d, h):
    m = d.model
    iso = d.iso
    clients = plan.get('clients') or []
    state = []
    late = []
    for c in clients:
        if c['kind'] == 'reader':
            node = m.get(c['ns'], c['path'])
            if node is None or node.kind != 'file' or node.blob != c['blob'] or c['blob'] not in m.blobs:
                state.append(None)
                continue
            b = m.blobs[c['blob']]
            data = blob_data(b)
            try:
                raw = iso.open_file_from_iso(**{KW[c['ns']]: c['path']})
                if plan.get('late_enter'):
                    late.append(raw)        # "with a, b:" - every stream is opened before the first one is entered
                else:
                    raw.__enter__()
            except Exception as e:
                ctx.violate(('open_file_from_iso-raised', type(e).__name__, 'bit' if b.bit else 'plain'), '%s %s: %r' % (c['ns'], c['path'], e))
                state.append(None)
                continue
            stream = io.BufferedReader(raw) if c.get('buffered') else raw
            if c.get('buffered'):
                ctx.probes['buffered_reader'] += 1
            ctx.probes['pending_file_stream' if (plan.get('restart_at') is None or b.gen >= m.generation) else 'on_image_stream'] += 1
            if b.bit or b.baked:
                ctx.probes['boot_info_table_file'] += 1
            state.append({'stream': stream, 'raw': raw, 'ref': io.BytesIO(data), 'i': 0, 'since': [], 'mask': (b.bit or b.baked), 'len': len(data)})
        else:
            state.append({'i': 0, 'gens': {}})
    if late:
        ctx.probes['streams_entered_late'] += 1
        # something else uses the image between open_file_from_iso() and the with-statement
        for c in clients:
            if c['kind'] == 'reader' and m.get(c['ns'], c['path']) is not None:
                try:
                    iso.get_file_from_iso_fp(io.BytesIO(), **{KW[c['ns']]: c['path']})
                except Exception:
                    pass
                break
        for raw in (reversed(late) if plan.get('late_enter') == 'reversed' else late):
            try:
                raw.__enter__()
            except Exception as e:
                ctx.violate(('stream-enter-raised', type(e).__name__), repr(e))
    blobs_open = [c['blob'] for c in clients if c['kind'] == 'reader']
    if len(blobs_open) != len(set(blobs_open)):
        ctx.probes['same_blob_two_streams'] += 1
    single = len(clients) == 1
    if single:
        ctx.probes['single_client_runs'] += 1
    interleaved = 0
    for ci in plan.get('schedule') or []:
        if ci >= len(clients) or state[ci] is None:
            continue
        c = clients[ci]
        st = state[ci]
        if st['i'] >= len(c['script']):
            continue
        step = c['script'][st['i']]
        st['i'] += 1
        if c['kind'] == 'noise':
            ctx.probes['noise_steps'] += 1
            kind = noise_step(ctx, d, step, st)
            for s2 in state:
                if s2 is not None and 'since' in s2:
                    s2['since'].append(kind)
            h.update(repr(('n', ci, step[0])).encode())
            continue
        ctx.probes['reader_steps'] += 1
        if st['since']:
            interleaved += 1
            ctx.probes['interleaved_between_reads'] += 1
            if 'write_scratch' in st['since']:
                ctx.probes['scratch_write_between_reads'] += 1
        got = do_stream(st['stream'], step)
        want = do_stream(st['ref'], step)
        if step[0] == 'readinto':
            ctx.probes['readinto_steps'] += 1
        if step[0] == 'seek' and want[0] == 'ok' and want[1] is not None and want[1] > st['len']:
            ctx.probes['seek_beyond_end'] += 1
        h.update(repr(('r', ci, step, got[0], hashlib.blake2b(repr(got[1:]).encode(), digest_size=8).hexdigest())).encode())
        bad = None
        if got[0] != want[0]:
            if not (got[0] == 'raise' and want[0] == 'raise'):
                bad = 'outcome'
        elif got[0] == 'ok':
            gv, wv = got[1], want[1]
            if st['mask'] and isinstance(gv, (bytes, bytearray)) and isinstance(wv, (bytes, bytearray)) and len(gv) == len(wv):
                # position of this read in the file: compare modulo the boot info table window
                p0 = want[3]
                gv2, wv2 = bytearray(gv), bytearray(wv)
                for k in range(len(gv2)):
                    if 8 <= p0 + k < 64:
                        gv2[k] = wv2[k] = 0
                gv, wv = bytes(gv2), bytes(wv2)
            if gv != wv:
                bad = 'value'
            elif got[2] != want[2]:
                bad = 'position'
        if bad:
            inter = 'single-client' if single else ('no-interleaving' if not st['since'] else 'interference:' + '+'.join(sorted(set(st['since']))))
            ctx.violate(('stream', step[0], bad, inter, 'buffered' if c.get('buffered') else 'raw'),
                        'client %d %s %s step %r: got %s want %s' % (ci, c['ns'], c['path'], step, brief(got), brief(want)))
            # the stream has diverged from its model: stop judging this reader
            state[ci] = None
            continue
        for cj, s2 in enumerate(state):
            if s2 is not None and 'since' in s2 and cj != ci:
                s2['since'].append('other-stream-' + step[0])
        st['since'] = []
    for st in state:
        if st is not None and 'raw' in st:
            try:
                st['raw'].close()
            except Exception:
                pass
    return interleaved


def brief(res):
    out = []
    for x in res:
        if isinstance(x, (bytes, bytearray)):
            out.append('%d bytes %s..' % (len(x), bytes(x[:12]).hex()))
        else:
            out.append(repr(x))
    return '(' + ', '.join(out) + ')'


def do_stream(s, step):
    """Returns ('ok', value, position after, position before) or ('raise', type)."""
    try:
        before = s.tell()
        k = step[0]
        if k == 'read':
            v = s.read(step[1]) if step[1] is not None else s.read()
        elif k == 'readall':
            v = s.readall() if hasattr(s, 'readall') else s.read()
        elif k == 'readinto':
            buf = bytearray(step[1])
            n = s.readinto(buf)
            v = bytes(buf[:n])
        elif k == 'seek':
            v = s.seek(step[1], step[2])
        else:
            v = s.tell()
        return ('ok', v, s.tell(), before)
    except Exception as e:
        return ('raise', type(e).__name__)


def noise_step(ctx, d, step, st):
    iso = d.iso
    m = d.model
    k = step[0]
    try:
        if k == 'extract':
            _, ns, path, bid, bs = step
            out = io.BytesIO()
            iso.get_file_from_iso_fp(out, blocksize=bs, **{KW[ns]: path})
            b = m.blobs.get(bid)
            node = m.get(ns, path)
            if b is not None and node is not None and node.blob == bid:
                want = blob_data(b)
                got = out.getvalue()
                ctx.probes['extract_checked'] += 1
                if b.bit or b.baked:
                    ok = len(got) == len(want) and got[:8] == want[:8] and got[64:] == want[64:]
                else:
                    ok = got == want
                if not ok:
                    ctx.violate(('extract', 'wrong-bytes', 'blocksize=%s' % ('1' if bs == 1 else '<2048' if bs < 2048 else '>=2048')),
                                '%s %s blocksize %d: %d bytes, want %d' % (ns, path, bs, len(got), len(want)))
            return 'extract'
        if k == 'get_record':
            iso.get_record(**{KW[step[1]]: step[2]})
            return 'get_record'
        if k == 'open_close':
            with iso.open_file_from_iso(**{KW[step[1]]: step[2]}) as f:
                f.read(10)
            return 'open+read+close'
        if k in ('walk', 'list'):
            g = st['gens'].get(k)
            if g is None:
                g = iso.walk(**{KW[step[1]]: '/'}) if k == 'walk' else iso.list_children(**{KW[step[1]]: '/'})
                st['gens'][k] = g
            for _ in range(step[2]):
                if next(g, None) is None:
                    st['gens'].pop(k, None)
                    break
            return k
        if k == 'write_scratch':
            iso.write_fp(SimFile(SimDisk('scratch'), 'wb'))
            return 'write_scratch'
    except d.pexc.PyCdlibException:
        ctx.stats['noise_refused:' + k] += 1
    except Exception as e:
        ctx.violate(('noise-call-raised', k, type(e).__name__), repr(e))
    return k


def simplifications(plan):
    # drop whole clients (remap the schedule), drop single script steps
    for ci in range(len(plan.get('clients') or [])):
        p2 = json.loads(json.dumps(plan))
        del p2['clients'][ci]
        p2['schedule'] = [c if c < ci else c - 1 for c in plan['schedule'] if c != ci]
        yield p2
    for ci, c in enumerate(plan.get('clients') or []):
        for si in range(len(c['script']) - 1, -1, -1):
            p2 = json.loads(json.dumps(plan))
            del p2['clients'][ci]['script'][si]
            yield p2
    for ci, c in enumerate(plan.get('clients') or []):
        if c.get('buffered'):
            p2 = json.loads(json.dumps(plan))
            p2['clients'][ci]['buffered'] = False
            yield p2
    if plan.get('restart_at') is not None:
        p2 = json.loads(json.dumps(plan))
        p2['restart_at'] = None
        yield p2


def sample_of(plan):
    return {'cfg': plan['cfg'], 'ops': plan['ops'][:6], 'restart_at': plan.get('restart_at'), 'clients': plan.get('clients'), 'schedule': plan.get('schedule')}
