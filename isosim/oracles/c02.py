"""C02 - editing an existing image preserves everything that was not edited."""
from .. import hist as H
from .. import observe as O
from . import c01

PROP = 'C02'
LEVEL = 'exploration'
RULE = ('HIST histories with 2..5 generations: generation n+1 = open_fp(image n), edits, write_fp; edits after a restart are biased to '
        'removals, re-adds and links of names that exist only as parsed state (zero-length files, UDF entries, names living in continuation '
        'blocks, El Torito on a reopened image); after every accepted edit and after every reopen the API view (walk, records, both read routes) '
        'must equal the reference model in every namespace; non-trivial: >= 3 accepted edits, >= 2 restarts and >= 1 edit applied to parsed state; '
        'distinct = model shape fingerprints')
BUDGET = {'quick': 40, 'thorough': 900}
PROBES = ['live_view_checked', 'reopen_view_checked', 'edits_on_parsed_state', 'generations_ge_3', 'removed_parsed_entry', 'relinked_parsed_entry']
ASSUMPTIONS = c01.ASSUMPTIONS + ['corpus = images the simulator itself mastered in all configurations; the vendored foreign-image corpus of the '
                                 'quantifier does not exist offline (vendor/ holds cdrkit sources, no genisoimage/xorriso binary)']


def post_gen(plan, w, model):
    pass


PROFILE = H.Profile('c02', nops=(6, 30), final_restart=True, zero_bias=0.15,
                    weights={'restart': 14, 'rm_file': 12, 'rm_dir': 7, 'rm_link': 9, 'add_link': 10, 'add_fp': 24, 'add_dir': 12,
                             'add_eltorito': 4, 'rm_eltorito': 2, 'add_boot_file': 2, 'hide': 4, 'add_symlink': 5, 'ptr_cycle': 0.12, 'dup_pvd': 1})


class C02(c01.C01):
    prop = PROP

    def on_edit(self, ctx, op, out):
        if ctx.model.generation > 0:
            ctx.probes['edits_on_parsed_state'] += 1
            if op['op'] in ('rm_file', 'rm_link', 'rm_dir'):
                ctx.probes['removed_parsed_entry'] += 1
            if op['op'] == 'add_link':
                ctx.probes['relinked_parsed_entry'] += 1
        super().on_edit(ctx, op, out)

    def on_reopen(self, ctx):
        if ctx.model.generation >= 3:
            ctx.probes['generations_ge_3'] += 1
        super().on_reopen(ctx)


def generate(seed, tier='quick'):
    return H.generate(seed, PROFILE)


def execute(plan):
    r = H.execute(plan, C02())
    r['nontrivial'] = r['nontrivial'] and r['stats'].get('restarts', 0) >= 2 and bool(r['probes'].get('edits_on_parsed_state'))
    return r


def sample_of(plan):
    return {'cfg': plan['cfg'], 'env': plan['env'], 'ops': plan['ops'][:14]}
