"""C07 - hard-link semantics: content lives exactly as long as its last name."""
from collections import Counter

from .. import hist as H
from .. import gen as G
from .. import observe as O
from .. import alloc, content
from . import c01

PROP = 'C07'
LEVEL = 'exploration'
RULE = ('HIST histories restricted to add_fp (1-3 namespaces), add_hard_link (every old/new namespace pair incl. boot_catalog_old), '
        'rm_hard_link, rm_file (by each namespace), add_eltorito/rm_eltorito and restarts, >= 30% zero-length files; after every edit the API '
        'view must equal the model (all names of a blob read its bytes; rm_file removes exactly the names of that content); after every '
        'write the image is stripe-scanned: every attributable stripe belongs to a live blob and occurs exactly once (stored once, released '
        'with the last reference incl. El Torito entries), names share data sectors iff they are links, and (images without Rock Ridge) no sector '
        'inside the volume is left that no structure refers to; non-trivial: >= 3 accepted edits, '
        '>= 1 write, >= 1 link or removal; distinct = model shape fingerprints')
BUDGET = {'quick': 40, 'thorough': 900}
PROBES = ['stripe_scans', 'blob_released', 'blob_kept_by_eltorito_only', 'link_removed_via_other_namespace', 'zero_length_removed_after_restart',
          'rm_file_multi_name', 'cross_namespace_link', 'bootcat_link', 'orphan_scans']
ASSUMPTIONS = c01.ASSUMPTIONS + ['attributable stripes: a 64-byte stripe header names its blob and offset; tails shorter than 16 bytes are not scanned']

PROFILE = H.Profile('c07', nops=(4, 26), zero_bias=0.3,
                    allow=('add_fp', 'add_dir', 'add_link', 'rm_link', 'rm_file', 'add_eltorito', 'rm_eltorito', 'restart', 'add_boot_file', 'shared_hidden_boot'),
                    weights={'add_fp': 26, 'add_dir': 4, 'add_link': 22, 'rm_link': 16, 'rm_file': 14, 'add_eltorito': 6, 'rm_eltorito': 4,
                             'restart': 7, 'add_boot_file': 3, 'shared_hidden_boot': 2.5},
                    sizes=(0, 0, 1, 8, 64, 65, 100, 2047, 2048, 2049, 4096, 6143, 10000))


def stripe_check(ctx, data):
    m = ctx.model
    ctx.probes['stripe_scans'] += 1
    seen = Counter()
    for off, bid, idx in content.scan_stripes(data):
        seen[(bid, idx)] += 1
    by_blob = {}
    for (bid, idx), n in seen.items():
        by_blob.setdefault(bid, []).append((idx, n))
    for bid, lst in by_blob.items():
        b = m.blobs.get(bid)
        special = b is not None and (b.bit or b.baked)
        if b is None:
            if bid in m.dead_blobs:
                d = m.dead_blobs[bid]
                if d.bit or d.baked:
                    lst = [(i, n) for i, n in lst if i < (d.length + 63) // 64]
                if lst:
                    ctx.violate(('conservation', 'dead-blob-stripes', 'generation=%s' % min(m.generation, 2)),
                                'blob %d was released but %d of its stripes are still in the image' % (bid, len(lst)), fatal=False)
            continue
        nstripes = (b.length + 63) // 64
        for idx, n in lst:
            if idx >= nstripes:
                if special:
                    continue
                ctx.violate(('conservation', 'stripe-beyond-length'), 'blob %d stripe %d of %d' % (bid, idx, nstripes), fatal=False)
            elif n > 1:
                ctx.violate(('conservation', 'stored-twice'), 'blob %d stripe %d occurs %d times' % (bid, idx, n), fatal=False)
                break
    for bid, b in m.blobs.items():
        if b.length < 16:
            continue
        full = b.length // 64 + (1 if b.length % 64 >= 16 else 0)
        have = {idx for idx, n in by_blob.get(bid, [])}
        masked = set()
        for off, hx in b.overlays:
            for i in range(off // 64, (off + len(hx) // 2 + 63) // 64 + 1):
                masked.add(i)
        missing = [i for i in range(full) if i not in have and i not in masked and not ((b.bit or b.baked) and i == 0)]
        if missing:
            ctx.violate(('conservation', 'live-blob-stripes-missing'), 'blob %d: %d of %d stripes missing (first %d)' % (bid, len(missing), full, missing[0]), fatal=False)


class C07(c01.C01):
    prop = PROP
    judge_write_open = False      # "the written image can always be opened" is C01's; C07 judges link semantics

    def before_edit(self, ctx, op):
        super().before_edit(ctx, op)
        m = ctx.model
        if op['op'] in ('rm_link', 'rm_file'):
            n = m.get(op['ns'], op['path'])
            if n is not None and n.kind == 'file' and isinstance(n.blob, int):
                names = m.names_of_blob(n.blob)
                if len({ns for ns, p in names}) >= 2:
                    ctx.probes['link_removed_via_other_namespace'] += 1
                if op['op'] == 'rm_file' and len(names) >= 2:
                    ctx.probes['rm_file_multi_name'] += 1
                if m.generation > 0 and m.blobs[n.blob].length == 0:
                    ctx.probes['zero_length_removed_after_restart'] += 1

    def on_edit(self, ctx, op, out):
        m = ctx.model
        k = op['op']
        if k == 'add_link':
            if op['old_ns'] == 'bootcat':
                ctx.probes['bootcat_link'] += 1
            elif op['old_ns'] != op['new_ns']:
                ctx.probes['cross_namespace_link'] += 1
        if k in ('rm_link', 'rm_file'):
            if m.dead_blobs and max(m.dead_blobs) >= 0 and getattr(self, '_ndead', 0) < len(m.dead_blobs):
                ctx.probes['blob_released'] += len(m.dead_blobs) - getattr(self, '_ndead', 0)
            self._ndead = len(m.dead_blobs)
            if m.generation > 0 and k == 'rm_file':
                ctx.probes['zero_length_removed_after_restart'] += 1 if op.get('_zero') else 0
        if k == 'rm_eltorito':
            self._rm_et = True
        for bid in m.eltorito_blobs():
            if bid in m.blobs and not m.names_of_blob(bid):
                ctx.probes['blob_kept_by_eltorito_only'] += 1
                break
        super().on_edit(ctx, op, out)

    def on_write(self, ctx, disk, wf):
        data = bytes(disk.data)
        stripe_check(ctx, data)
        am = alloc.build(data, ctx.model)
        for rule, detail in alloc.check(am, data, ctx.model, hybrid=bool(ctx.model.hybrid)):
            if rule[0] in ('sharing', 'overlap', 'length'):
                ctx.violate(rule, detail, fatal=False)
        # space is released with the last reference: no sector inside the volume that nothing refers to.  Judged on
        # images without Rock Ridge only - with it, an emptied continuation block stays allocated for reuse (by design).
        if not ctx.model.rr:
            orphans = alloc.orphan_sectors(am, data)
            if orphans is not None:
                ctx.probes['orphan_scans'] += 1
                if orphans:
                    ctx.violate(('space', 'unreferenced-sectors', 'eltorito-was-removed' if getattr(self, '_rm_et', False) else 'no-eltorito-removal'),
                                '%d sector(s) inside the volume belong to nothing: %r' % (sum(n for _, n in orphans), orphans[:4]), fatal=False)


def generate(seed, tier='quick'):
    return H.generate(seed, PROFILE)


def execute(plan):
    r = H.execute(plan, C07())
    st = r['stats']
    r['nontrivial'] = r['nontrivial'] and any(st.get('accepted:' + k) for k in ('add_link', 'rm_link', 'rm_file'))
    return r


def sample_of(plan):
    return {'cfg': plan['cfg'], 'env': plan['env'], 'ops': plan['ops'][:14]}
